mod harness;
mod interpose;
mod sim;

#[global_allocator]
static GLOBAL: interpose::SimAlloc = interpose::SimAlloc;

use routee_compass::app::compass::compass_app::CompassApp;
use routee_compass::app::compass::config::compass_app_builder::CompassAppBuilder;

fn main() {
    let seed: u64 = std::env::args().nth(1).and_then(|s| s.parse().ok()).unwrap_or(1);
    let workers: usize = std::env::args().nth(2).and_then(|s| s.parse().ok()).unwrap_or(4);
    let mut cfg = sim::SimCfg::default();
    cfg.alloc_every = 8;
    cfg.faults = sim::F_SHORT_WRITE | sim::F_EINTR_WRITE;
    cfg.io_fault_rate = 0.2;
    let dec = sim::Decider::from_seed(seed);
    let t0 = std::time::Instant::now();
    let out = harness::run_in_sim(cfg, dec, 2, move || {
        sim::with(|s| {
            s.put_file("/sim/edges.csv", b"edge_id,src_vertex_id,dst_vertex_id,distance\n0,0,1,175381\n1,0,2,772320\n2,1,2,707960\n".to_vec());
            s.put_file("/sim/vertices.csv", b"vertex_id,x,y\n0,-105.1683038,39.7379033\n1,-104.8086039,41.1475252\n2,-111.9095014,40.7607176\n".to_vec());
            s.put_file("/sim/config.toml", b"x".to_vec());
            s.put_file("/sim/speeds.txt", b"112.0\n64.36\n112.0\n".to_vec());
            s.put_file("/sim/geoms.txt", b"LINESTRING (-105.1683038 39.7379033, -104.8086039 41.1475252)\nLINESTRING (-105.1683038 39.7379033, -111.9095014 40.7607176)\nLINESTRING (-104.8086039 41.1475252, -111.9095014 40.7607176)\n".to_vec());
        });
        let conf = r#"
parallelism = 4
response_persistence_policy = "persist_response_in_memory"
[response_output_policy]
type = "file"
filename = "/sim/out.json"
format = { type = "json", newline_delimited = true }
[graph]
edge_list_input_file = "/sim/edges.csv"
vertex_list_input_file = "/sim/vertices.csv"
verbose = false
[traversal]
type = "speed_table"
speed_table_input_file = "/sim/speeds.txt"
speed_unit = "kilometers_per_hour"
output_time_unit = "hours"
[cost]
cost_aggregation = "sum"
[cost.weights]
distance = 0
time = 1
[cost.vehicle_rates.time]
type = "raw"
[cost.vehicle_rates.distance]
type = "raw"
[plugin]
input_plugins = []
output_plugins = [ { type = "summary" }, { type = "traversal", route = "edge_id", geometry_input_file = "/sim/geoms.txt" } ]
"#;
        let builder = CompassAppBuilder::default();
        let app = CompassApp::try_from_config_toml_string(conf.to_string(), "/sim/config.toml".to_string(), &builder).expect("build app");
        let pool = harness::make_pool(workers);
        let queries: Vec<serde_json::Value> = (0..20).map(|i| serde_json::json!({"origin_vertex": i % 3, "destination_vertex": (i + 1 + i / 3) % 3, "id": i})).collect();
        sim::set_quiet(false);
        let res = pool.install(|| app.run(queries, None));
        sim::set_quiet(true);
        drop(pool);
        res.map_err(|e| e.to_string())
    });
    let dt = t0.elapsed();
    let s = &out.sim;
    match &out.result {
        Ok(Ok(v)) => println!("responses: {}", v.len()),
        other => println!("result: {:?}", other.as_ref().map(|_| ())),
    }
    let f = s.get_file("/sim/out.json").unwrap_or(b"");
    let text = String::from_utf8_lossy(f);
    let ids: Vec<String> = text.lines().map(|l| serde_json::from_str::<serde_json::Value>(l).map(|v| v["request"]["id"].to_string()).unwrap_or("BAD".into())).collect();
    println!("file order: {}", ids.join(","));
    println!("stats: {}", serde_json::to_string(&s.stats).unwrap());
    println!("wall: {:?}", dt);
}
