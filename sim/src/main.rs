mod checks;
mod driver;
mod harness;
mod interpose;
mod oracle;
mod scenario;
mod sim;
mod tsan_rt;
mod world;

#[global_allocator]
static GLOBAL: interpose::SimAlloc = interpose::SimAlloc;

use driver::{Budget, Check, Tier};
use serde_json::{json, Value};
use std::time::{Duration, Instant};

const VERIF_DIR_DEFAULT: &str = "/verif";

/// where evidence, replays and the known-findings file live (a background run from a snapshot points this at the snapshot)
fn verif_dir() -> String {
    std::env::var("VERIF_OUT").unwrap_or_else(|_| VERIF_DIR_DEFAULT.to_string())
}

fn arg_val(args: &[String], name: &str) -> Option<String> {
    args.iter().position(|a| a == name).and_then(|i| args.get(i + 1).cloned())
}

fn real_stub_table() -> Value {
    json!({
        "real_code": ["routee-compass", "routee-compass-core", "routee-compass-powertrain", "rayon / rayon-core / crossbeam (work stealing, sleep, latches)",
            "std::sync (Mutex, Condvar, Once, Arc) and std::fs / std::io", "serde_json, csv, flate2, config, chrono, kdam, smartcore, lru, ordered_hash_map"],
        "stubbed_kernel_side_only": ["thread scheduler (token passing at futex/sched_yield/clock/file-I/O/allocation points)", "clock_gettime / gettimeofday",
            "files under /sim/ (open/read/write/close/lseek/stat/statx)", "getrandom (hash seeds)", "stdout/stderr of simulated threads (swallowed)"]
    })
}

fn write_evidence(check: &dyn Check, tier: Tier, seed: u64, sum: &driver::Summary, wall: f64, n_viol: usize, known: &[String], unreproduced: &[(u64, String)]) {
    let dir = format!("{}/evidence", verif_dir());
    let _ = std::fs::create_dir_all(&dir);
    let runs_per_hour = if wall > 0.0 { (sum.runs as f64 / wall * 3600.0) as u64 } else { 0 };
    let mut faults = serde_json::Map::new();
    for (name, _) in sim::FAULT_NAMES.iter() {
        if let Some(n) = sum.faults.get(*name) {
            faults.insert(name.to_string(), json!(n));
        }
    }
    let ev = json!({
        "property_id": check.id(),
        "tier": if tier == Tier::Quick { "quick" } else { "thorough" },
        "seed": seed,
        "level": check.level(),
        "coverage": {
            "evaluations": sum.runs,
            "distinct_nontrivial": sum.signatures.len(),
            "rule": check.rule(),
            "samples": sum.samples,
            "nontrivial_runs": sum.nontrivial,
            "runs_per_family": sum.per_family,
            "simulated_runs_per_hour": runs_per_hour,
            "seeds_per_hour": runs_per_hour,
            "simulated_time_covered_s": sum.sim_time_ns as f64 / 1e9,
            "scheduling_points": sum.steps,
            "context_switches": sum.switches,
            "preemptions": sum.preemptions,
            "max_simulated_threads": sum.threads_max,
            "distinct_interleavings": sum.interleavings.len(),
            "distinct_interleavings_measure": "distinct FNV hashes of the per-run sequence of (scheduling point index, thread switched to)",
            "faults_injected": faults,
            "reach_probes": sum.reach,
            "components": real_stub_table(),
            "known_findings_reported": known,
            "harness_errors": sum.harness_errors.iter().map(|(s, e)| json!({"seed": s, "error": e})).collect::<Vec<_>>(),
            "unreproduced_not_reported": unreproduced.iter().map(|(s, c)| json!({"seed": s, "class": c})).collect::<Vec<_>>(),
            "exhaustive": false
        },
        "assumptions": check.assumptions(),
        "wall_s": wall,
        "violations": n_viol
    });
    let path = format!("{}/{}.json", dir, check.id());
    let _ = std::fs::write(&path, serde_json::to_string_pretty(&ev).unwrap());
}

fn cmd_check(args: &[String]) -> i32 {
    let id = match args.get(0) {
        Some(i) => i.clone(),
        None => {
            eprintln!("usage: check <ID> [--tier quick|thorough] [--seed N] [--runs N] [--wall S] [--jobs N]");
            return 2;
        }
    };
    let check = match checks::by_id(&id) {
        Some(c) => c,
        None => {
            eprintln!("unknown check {}", id);
            return 2;
        }
    };
    let tier = match arg_val(args, "--tier").or_else(|| std::env::var("VERIF_TIER").ok()).as_deref() {
        Some("thorough") => Tier::Thorough,
        _ => Tier::Quick,
    };
    let seed: u64 = arg_val(args, "--seed").or_else(|| std::env::var("VERIF_SEED").ok()).and_then(|s| s.parse().ok()).unwrap_or(20260926);
    let jobs: usize = arg_val(args, "--jobs").and_then(|s| s.parse().ok()).unwrap_or_else(|| std::thread::available_parallelism().map(|n| n.get()).unwrap_or(8).min(16));
    let (def_runs, def_wall) = match tier {
        Tier::Quick => (check.default_runs(Tier::Quick), 150u64),
        Tier::Thorough => (check.default_runs(Tier::Thorough), 1500u64),
    };
    let runs: u64 = arg_val(args, "--runs").and_then(|s| s.parse().ok()).unwrap_or(def_runs);
    let wall: u64 = arg_val(args, "--wall").and_then(|s| s.parse().ok()).unwrap_or(def_wall);
    let budget = Budget { runs, wall: Duration::from_secs(wall), jobs, child_timeout: Duration::from_secs(60) };
    println!("VERIF_SEED={} check={} tier={:?} runs<={} wall<={}s jobs={}", seed, id, tier, runs, wall, jobs);
    let t0 = Instant::now();
    let sum = driver::explore(check.as_ref(), tier, seed, &budget);
    let known = driver::load_known(&format!("{}/known_findings.json", verif_dir()));
    let mut reported_known: Vec<String> = vec![];
    let mut new_violations: Vec<(scenario::Case, driver::Violation)> = vec![];
    for (case, viol) in &sum.violations {
        if let Some(k) = known.iter().find(|k| k.property == id && viol.class.starts_with(&k.class)) {
            let line = format!("KNOWN-FINDING: property={} {}", id, k.what);
            if !reported_known.contains(&line) {
                reported_known.push(line);
            }
        } else {
            new_violations.push((case.clone(), viol.clone()));
        }
    }
    for l in &reported_known {
        println!("{}", l);
    }
    let mut exit = 0;
    let _ = std::fs::create_dir_all(format!("{}/replays", verif_dir()));
    // a violation is reported only if it reproduces in a fresh process, from its recorded decisions or from its
    // seed (the replay contract); of each class the first case that does is the one reported
    let mut confirmed: Vec<(scenario::Case, driver::Violation)> = vec![];
    let mut unreproduced: Vec<(u64, String)> = vec![];
    let mut classes_in_order: Vec<String> = vec![];
    for (_, v) in &new_violations {
        if !classes_in_order.contains(&v.class) {
            classes_in_order.push(v.class.clone());
        }
    }
    for class in classes_in_order.iter().take(if std::env::var_os("SIM_ALL_VIOLATIONS").is_some() { 50 } else { 3 }) {
        let mut found = false;
        for (case, viol) in new_violations.iter().filter(|(_, v)| &v.class == class) {
            let mut seeded = case.clone();
            seeded.recorded = None;
            if driver::still_fails(check.as_ref(), case, class, Duration::from_secs(90)).is_some() {
                confirmed.push((case.clone(), viol.clone()));
                found = true;
                break;
            } else if driver::still_fails(check.as_ref(), &seeded, class, Duration::from_secs(90)).is_some() {
                confirmed.push((seeded, viol.clone()));
                found = true;
                break;
            }
            let path = format!("{}/replays/unreproduced-{}-{}-{}.json", verif_dir(), id, case.seed, driver::fnv64(&viol.class) % 100000);
            let _ = std::fs::write(&path, serde_json::to_string_pretty(&json!({"property": id, "class": viol.class, "detail": viol.detail, "seed": case.seed, "case": case})).unwrap());
            println!("note: unreproduced class={} seed={} detail={} (kept for diagnosis in {}; not reported: a violation must replay exactly)", viol.class, case.seed, viol.detail.chars().take(700).collect::<String>(), path);
            unreproduced.push((case.seed, viol.class.clone()));
        }
        let _ = found;
    }
    let new_violations = confirmed;
    for (case, viol) in new_violations.iter() {
        let (min_case, steps) = driver::minimise(check.as_ref(), case, &viol.class, Duration::from_secs(60), Duration::from_secs(if tier == Tier::Quick { 60 } else { 240 }));
        // re-evaluate the minimised case in a fresh process for the final detail text
        let r = driver::eval_case(check.as_ref(), &min_case, Duration::from_secs(60));
        let detail = r.violations.iter().find(|v| v.class == viol.class).map(|v| v.detail.clone()).unwrap_or(viol.detail.clone());
        let path = format!("{}/replays/{}-{}-{}.json", verif_dir(), id, case.seed, driver::fnv64(&viol.class) % 100000);
        let file = json!({"property": id, "class": viol.class, "detail": detail, "seed": case.seed, "minimisation_steps": steps,
            "schedule_decisions": min_case.recorded.as_ref().map(|r| r.sched.len()), "faults": min_case.recorded.as_ref().map(|r| r.faults.clone()),
            "case": min_case});
        let _ = std::fs::write(&path, serde_json::to_string_pretty(&file).unwrap());
        println!("violation class={} seed={} detail={}", viol.class, case.seed, detail.chars().take(600).collect::<String>());
        println!("VIOLATION property={} replay={}", id, path);
        exit = 1;
    }
    let wall_s = t0.elapsed().as_secs_f64();
    write_evidence(check.as_ref(), tier, seed, &sum, wall_s, new_violations.len(), &reported_known, &unreproduced);
    println!(
        "runs={} nontrivial={} distinct={} interleavings={} faults={:?} sim_time={:.3}s wall={:.1}s harness_errors={}",
        sum.runs,
        sum.nontrivial,
        sum.signatures.len(),
        sum.interleavings.len(),
        sum.faults,
        sum.sim_time_ns as f64 / 1e9,
        wall_s,
        sum.harness_errors.len()
    );
    println!("reach={:?}", sum.reach);
    for (c, (n, s0)) in &sum.classes {
        println!("class count={} first_seed={} {}", n, s0, c);
    }
    if !sum.harness_errors.is_empty() {
        for (s, e) in sum.harness_errors.iter().take(5) {
            println!("HARNESS-ERROR seed={} {}", s, e.chars().take(400).collect::<String>());
        }
        if exit == 0 {
            exit = 2;
        }
    }
    if sum.runs == 0 && exit == 0 {
        exit = 2;
    }
    exit
}

fn cmd_replay(args: &[String]) -> i32 {
    let path = match args.get(0) {
        Some(p) => p,
        None => return 2,
    };
    let text = match std::fs::read_to_string(path) {
        Ok(t) => t,
        Err(e) => {
            eprintln!("cannot read {}: {}", path, e);
            return 2;
        }
    };
    let v: Value = serde_json::from_str(&text).expect("replay file is JSON");
    let case: scenario::Case = serde_json::from_value(v["case"].clone()).expect("replay file holds a case");
    let class = v["class"].as_str().unwrap_or("").to_string();
    let id = v["property"].as_str().unwrap_or("").to_string();
    let check = checks::by_id(&id).expect("known check");
    let r = driver::eval_case(check.as_ref(), &case, Duration::from_secs(120));
    for viol in &r.violations {
        println!("violation class={} detail={}", viol.class, viol.detail.chars().take(800).collect::<String>());
    }
    if let Some(st) = &r.stats {
        println!("trace_hash={} sched_hash={} steps={} switches={}", st.trace_hash, st.sched_hash, st.steps, st.switches);
    }
    if std::env::var_os("SIM_DUMP").is_some() {
        println!("SAMPLE {}", r.sample);
    }
    if r.violations.iter().any(|x| x.class == class) {
        println!("VIOLATION property={} replay={}", id, path);
        1
    } else if let Some(e) = r.harness_error {
        println!("HARNESS-ERROR {}", e);
        2
    } else {
        println!("not reproduced: class {} did not occur", class);
        0
    }
}

/// run single seeds and print what happened (debugging aid)
fn cmd_one(args: &[String]) -> i32 {
    let id = &args[0];
    let seed: u64 = args[1].parse().unwrap();
    let check = checks::by_id(id).expect("known check");
    let tier = if args.iter().any(|a| a == "thorough") { Tier::Thorough } else { Tier::Quick };
    let fams = check.families(tier);
    let base: u64 = arg_val(args, "--base").and_then(|s| s.parse().ok()).unwrap_or(20260926);
    let i = seed.wrapping_sub(base);
    let (auto_fam, fam_idx) = driver::family_of(&fams, i);
    let fam = arg_val(args, "--family").unwrap_or_else(|| auto_fam.to_string());
    let fam_static = fams.iter().find(|f| **f == fam).copied().unwrap_or(fams[0]);
    let case = driver::gen_case(check.as_ref(), base, i, fam_static, fam_idx, tier);
    if args.iter().any(|a| a == "--case") {
        println!("{}", serde_json::to_string_pretty(&case).unwrap());
    }
    let r = driver::eval_case(check.as_ref(), &case, Duration::from_secs(120));
    println!("{}", serde_json::to_string_pretty(&json!({"violations": r.violations, "nontrivial": r.nontrivial, "reach": r.reach, "stats": r.stats, "sample": r.sample, "harness_error": r.harness_error})).unwrap());
    0
}

/// determinism proof: every seed is executed twice in independent processes (and the second time
/// while other seeds run concurrently on all cores); trace hashes must be identical.
fn cmd_determinism(args: &[String]) -> i32 {
    let id = &args[0];
    let n: u64 = arg_val(args, "--seeds").and_then(|s| s.parse().ok()).unwrap_or(200);
    let base: u64 = arg_val(args, "--seed").and_then(|s| s.parse().ok()).unwrap_or(1);
    let jobs: usize = arg_val(args, "--jobs").and_then(|s| s.parse().ok()).unwrap_or(16);
    let check = checks::by_id(id).expect("known check");
    let tier = if args.iter().any(|a| a == "thorough") { Tier::Thorough } else { Tier::Quick };
    let fams = check.families(tier);
    let mut pipes = vec![];
    for k in 0..jobs {
        let mut fds = [0i32; 2];
        unsafe { libc::pipe(fds.as_mut_ptr()) };
        let pid = unsafe { libc::fork() };
        if pid == 0 {
            let mut out = String::new();
            let mut i = k as u64;
            while i < n {
                let seed = base + i;
                let (fam, fam_idx) = driver::family_of(&fams, i);
                let case = driver::gen_case(check.as_ref(), base, i, fam, fam_idx, tier);
                let _ = seed;
                let traced = std::env::var("SIM_DET_TRACE_SEED").ok().and_then(|s| s.parse::<u64>().ok()) == Some(seed);
                let run_t = |c: &scenario::Case, tag: &str| -> driver::ChildResult {
                    if !traced {
                        return driver::eval_case(check.as_ref(), c, Duration::from_secs(120));
                    }
                    std::env::set_var("SIM_TRACE_RANGE", "0-100000000");
                    std::env::set_var("SIM_CHILD_STDERR", "1");
                    let f = std::fs::File::create(format!("/tmp/dett_{}_{}.txt", seed, tag)).unwrap();
                    use std::os::unix::io::AsRawFd;
                    let saved = unsafe { libc::dup(2) };
                    unsafe { libc::dup2(f.as_raw_fd(), 2) };
                    let r = driver::eval_case(check.as_ref(), c, Duration::from_secs(120));
                    unsafe { libc::dup2(saved, 2); libc::close(saved) };
                    std::env::remove_var("SIM_TRACE_RANGE");
                    std::env::remove_var("SIM_CHILD_STDERR");
                    r
                };
                let a = run_t(&case, "a");
                let b = run_t(&case, "b");
                // third execution: explicit replay of the recorded decisions
                let mut c2 = case.clone();
                c2.recorded = a.recorded.clone();
                let c = run_t(&c2, "c");
                let h = |r: &driver::ChildResult| r.stats.as_ref().map(|s| (s.trace_hash, s.steps, s.switches));
                // (a run stopped by a budget has no statistics; its class is compared up to the stack site)
                let va = |r: &driver::ChildResult| r.violations.iter().map(|v| if v.class.starts_with("unbounded") { v.class.split('@').next().unwrap_or("").to_string() } else { v.class.clone() }).collect::<Vec<_>>();
                let ok = h(&a) == h(&b) && (h(&a).is_some() || !a.violations.is_empty()) && va(&a) == va(&b);
                let ok_replay = h(&a) == h(&c) && va(&a) == va(&c);
                out.push_str(&format!("{} {} {} {:?} {:?} {:?}\n", seed, ok, ok_replay, h(&a), h(&b), h(&c)));
                if !ok_replay && std::env::var_os("SIM_DET_DEBUG").is_some() {
                    std::env::set_var("SIM_TRACE_RANGE", "0-100000000");
                    std::env::set_var("SIM_CHILD_STDERR", "1");
                    let run = |c: &scenario::Case, path: &str| -> driver::ChildResult {
                        let f = std::fs::File::create(path).unwrap();
                        use std::os::unix::io::AsRawFd;
                        let saved = unsafe { libc::dup(2) };
                        unsafe { libc::dup2(f.as_raw_fd(), 2) };
                        let r = driver::eval_case(check.as_ref(), c, Duration::from_secs(120));
                        unsafe { libc::dup2(saved, 2); libc::close(saved) };
                        r
                    };
                    let c3 = run(&c2, &format!("/tmp/det_{}_replay.txt", seed));
                    let a3 = run(&case, &format!("/tmp/det_{}_seeded.txt", seed));
                    out.push_str(&format!("DEBUG {} replay-again {:?} seeded-again {:?}\n", seed, h(&c3), h(&a3)));
                }
                i += jobs as u64;
            }
            sim::raw_write_fd(fds[1], out.as_bytes());
            unsafe { libc::_exit(0) };
        }
        unsafe { libc::close(fds[1]) };
        pipes.push((fds[0], pid));
    }
    let mut bad = 0;
    let mut total = 0;
    for (rfd, pid) in pipes {
        use std::io::Read;
        use std::os::unix::io::FromRawFd;
        let mut f = unsafe { std::fs::File::from_raw_fd(rfd) };
        let mut text = String::new();
        let _ = f.read_to_string(&mut text);
        let mut status = 0;
        unsafe { libc::waitpid(pid, &mut status, 0) };
        for line in text.lines() {
            total += 1;
            let parts: Vec<&str> = line.split(' ').collect();
            if parts.get(1) != Some(&"true") || parts.get(2) != Some(&"true") {
                bad += 1;
                println!("NONDETERMINISTIC {}", line);
            }
        }
    }
    println!("determinism: {} seeds x (2 seeded executions + 1 explicit replay), {} divergent", total, bad);
    if bad > 0 || total == 0 {
        1
    } else {
        0
    }
}

/// debugging aid: run one seed seeded and as an explicit replay, each with a full event trace written to a file
fn cmd_tracecmp(args: &[String]) -> i32 {
    let id = &args[0];
    let seed: u64 = args[1].parse().unwrap();
    let base: u64 = arg_val(args, "--base").and_then(|s| s.parse().ok()).unwrap_or(1);
    let check = checks::by_id(id).expect("known check");
    let fams = check.families(Tier::Quick);
    let i = seed.wrapping_sub(base);
    let (fam, fam_idx) = driver::family_of(&fams, i);
    let case = driver::gen_case(check.as_ref(), base, i, fam, fam_idx, Tier::Quick);
    std::env::set_var("SIM_TRACE_RANGE", "0-100000000");
    std::env::set_var("SIM_CHILD_STDERR", "1");
    let run = |c: &scenario::Case, path: &str| -> driver::ChildResult {
        let f = std::fs::File::create(path).unwrap();
        use std::os::unix::io::AsRawFd;
        let saved = unsafe { libc::dup(2) };
        unsafe { libc::dup2(f.as_raw_fd(), 2) };
        let r = driver::eval_case(check.as_ref(), c, Duration::from_secs(120));
        unsafe { libc::dup2(saved, 2) };
        r
    };
    let a = run(&case, "/tmp/trace_a.txt");
    let mut c2 = case.clone();
    c2.recorded = a.recorded.clone();
    let b = run(&c2, "/tmp/trace_b.txt");
    println!("family {} a={:?} b={:?}", fam, a.stats.as_ref().map(|s| (s.trace_hash, s.steps)), b.stats.as_ref().map(|s| (s.trace_hash, s.steps)));
    0
}

fn main() {
    let args: Vec<String> = std::env::args().skip(1).collect();
    let code = match args.get(0).map(|s| s.as_str()) {
        Some("check") => cmd_check(&args[1..]),
        Some("replay") => cmd_replay(&args[1..]),
        Some("one") => cmd_one(&args[1..]),
        Some("determinism") => cmd_determinism(&args[1..]),
        Some("tracecmp") => cmd_tracecmp(&args[1..]),
        _ => {
            eprintln!("usage: compass-sim check|replay|one|determinism ...");
            2
        }
    };
    std::process::exit(code);
}
