//! Seeded search over simulated runs: one forked child per run (crash isolation, identical initial
//! process state for search and replay), W worker processes, minimisation, evidence.

use crate::scenario::Case;
use crate::sim::Stats;
use serde::{Deserialize, Serialize};
use serde_json::{json, Value};
use std::collections::{BTreeMap, BTreeSet};
use std::io::Read;
use std::os::unix::io::FromRawFd;
use std::time::{Duration, Instant};

#[derive(Clone, Copy, PartialEq, Debug)]
pub enum Tier {
    Quick,
    Thorough,
}

#[derive(Clone, Debug, Serialize, Deserialize)]
pub struct Violation {
    /// stable identifier of *what* failed (used for minimisation and for the known-findings file)
    pub class: String,
    pub detail: String,
}

#[derive(Clone, Debug, Serialize, Deserialize, Default)]
pub struct ChildResult {
    pub violations: Vec<Violation>,
    pub nontrivial: bool,
    /// identifies the explored case for the distinct count (world + schedule)
    pub signature: u64,
    /// reach probes: "this condition was hit" counters
    pub reach: BTreeMap<String, u64>,
    pub stats: Option<Stats>,
    pub recorded: Option<crate::sim::Recorded>,
    pub sample: Value,
    pub harness_error: Option<String>,
}

pub trait Check: Sync {
    fn id(&self) -> &'static str;
    fn level(&self) -> &'static str {
        "exploration"
    }
    fn families(&self, tier: Tier) -> Vec<&'static str>;
    fn gen(&self, seed: u64, family: &str, tier: Tier) -> Case;
    /// like `gen`, but also told the base seed of the run, the run index and how many runs of the same
    /// family precede this one (for families that enumerate a space instead of sampling it)
    fn gen_indexed(&self, base_seed: u64, i: u64, family: &str, _family_index: u64, tier: Tier) -> Case {
        self.gen(base_seed.wrapping_add(i), family, tier)
    }
    /// runs in the forked child
    fn run(&self, case: &Case, fatal_fd: i32) -> ChildResult;
    fn default_runs(&self, tier: Tier) -> u64 {
        match tier {
            Tier::Quick => 400,
            Tier::Thorough => 20000,
        }
    }
    fn rule(&self) -> String;
    fn assumptions(&self) -> Vec<String>;
    /// how a fatal simulator stop (deadlock, budget) or a child killed by a signal / timeout is judged
    fn judge_abnormal(&self, _case: &Case, what: &str) -> Option<Violation> {
        Some(Violation { class: format!("abnormal:{}", what), detail: what.to_string() })
    }
    /// structural shrink candidates (generic ones are added by the driver)
    fn shrink(&self, _case: &Case) -> Vec<Case> {
        vec![]
    }
}

/// the case of run `i`: the check's own generator, then the knobs every check shares
pub fn gen_case(check: &dyn Check, base_seed: u64, i: u64, family: &str, family_index: u64, tier: Tier) -> Case {
    let mut case = check.gen_indexed(base_seed, i, family, family_index, tier);
    // a logger may be installed in the process (RUST_LOG=debug, an embedding application's logger): three runs
    // in eight log at info, debug or trace level into a sink that formats every message
    let mut r = crate::sim::Rng::new(case.seed ^ fnv64("log-level"));
    case.simcfg.log_level = *r.pick(&[0u8, 0, 0, 0, 0, 3, 4, 5]);
    case
}

#[derive(Debug)]
pub enum ChildOutcome {
    Done(ChildResult),
    Fatal(String, Option<crate::sim::Recorded>, String),
    Signal(i32),
    Timeout,
    Garbage(String),
}

fn set_cloexec(fd: i32, on: bool) {
    unsafe {
        let f = libc::fcntl(fd, libc::F_GETFD);
        libc::fcntl(fd, libc::F_SETFD, if on { f | libc::FD_CLOEXEC } else { f & !libc::FD_CLOEXEC });
    }
}

/// fork a child that runs `f` and writes its JSON result to a pipe
pub fn run_child(timeout: Duration, f: impl FnOnce(i32) -> ChildResult) -> ChildOutcome {
    let mut fds = [0i32; 2];
    unsafe {
        if libc::pipe(fds.as_mut_ptr()) != 0 {
            return ChildOutcome::Garbage("pipe failed".into());
        }
    }
    set_cloexec(fds[0], true);
    let pid = unsafe { libc::fork() };
    if pid < 0 {
        return ChildOutcome::Garbage("fork failed".into());
    }
    if pid == 0 {
        // ---- child ----
        unsafe {
            libc::close(fds[0]);
            if std::env::var_os("SIM_CHILD_STDERR").is_none() {
                let dn = libc::open(b"/dev/null\0".as_ptr() as *const libc::c_char, libc::O_RDWR);
                if dn >= 0 {
                    libc::dup2(dn, 0);
                    libc::dup2(dn, 1);
                    libc::dup2(dn, 2);
                    if dn > 2 {
                        libc::close(dn);
                    }
                }
            }
        }
        let wfd = fds[1];
        crate::scenario::install_panic_hook();
        let res = std::panic::catch_unwind(std::panic::AssertUnwindSafe(|| f(wfd)));
        let res = match res {
            Ok(r) => r,
            Err(_) => ChildResult { harness_error: Some(format!("harness panicked: {:?}", crate::scenario::take_panics())), ..Default::default() },
        };
        let mut s = serde_json::to_string(&res).unwrap_or_else(|e| format!("{{\"harness_error\":\"serialize: {}\"}}", e));
        s.push('\n');
        crate::sim::raw_write_fd(wfd, s.as_bytes());
        unsafe { libc::_exit(0) };
    }
    // ---- parent ----
    unsafe { libc::close(fds[1]) };
    let rfd = fds[0];
    let mut buf: Vec<u8> = vec![];
    let start = Instant::now();
    let mut timed_out = false;
    loop {
        let left = timeout.checked_sub(start.elapsed()).unwrap_or(Duration::ZERO);
        if left.is_zero() {
            timed_out = true;
            break;
        }
        let mut p = libc::pollfd { fd: rfd, events: libc::POLLIN, revents: 0 };
        let r = unsafe { libc::poll(&mut p, 1, left.as_millis().min(1000) as i32) };
        if r > 0 {
            let mut tmp = [0u8; 65536];
            let n = unsafe { libc::read(rfd, tmp.as_mut_ptr() as *mut libc::c_void, tmp.len()) };
            if n > 0 {
                buf.extend_from_slice(&tmp[..n as usize]);
            } else if n == 0 {
                break;
            } else if std::io::Error::last_os_error().kind() != std::io::ErrorKind::Interrupted {
                break;
            }
        }
    }
    if timed_out {
        unsafe { libc::kill(pid, libc::SIGKILL) };
    }
    let mut status = 0i32;
    unsafe {
        libc::waitpid(pid, &mut status, 0);
        libc::close(rfd);
    }
    if timed_out {
        return ChildOutcome::Timeout;
    }
    let text = String::from_utf8_lossy(&buf).to_string();
    if libc::WIFSIGNALED(status) {
        return ChildOutcome::Signal(libc::WTERMSIG(status));
    }
    let code = libc::WEXITSTATUS(status);
    // the simulator's fatal path writes {"fatal":..} and exits 3 (possibly preceded by a recorded-decisions line)
    if code == 3 {
        let mut rec = None;
        let mut what = String::from("unknown fatal");
        let mut diag = String::new();
        for line in text.lines() {
            if let Ok(v) = serde_json::from_str::<Value>(line) {
                if let Some(f) = v.get("fatal").and_then(|x| x.as_str()) {
                    what = f.to_string();
                    if let Some(d) = v.get("diag").and_then(|x| x.as_str()) {
                        diag = format!(" [steps={} {}]", v.get("steps").and_then(|x| x.as_u64()).unwrap_or(0), d);
                    }
                }
                if let Some(r) = v.get("recorded") {
                    rec = serde_json::from_value(r.clone()).ok();
                }
            }
        }
        return ChildOutcome::Fatal(what, rec, diag);
    }
    match text.lines().last().map(serde_json::from_str::<ChildResult>) {
        Some(Ok(r)) => ChildOutcome::Done(r),
        other => ChildOutcome::Garbage(format!("exit code {} output {:?} parse {:?}", code, text.chars().take(300).collect::<String>(), other.map(|r| r.err().map(|e| e.to_string())))),
    }
}

pub fn fatal_cb(_what: &str, s: &mut crate::sim::Sim) {
    // executed by the token holder right before the process ends: persist the decisions taken so far
    let rec = s.recorded();
    let line = format!("{}\n", json!({ "recorded": rec }));
    let fd = unsafe { GLOBAL_FATAL_FD };
    if fd >= 0 {
        crate::sim::raw_write_fd(fd, line.as_bytes());
    }
}
static mut GLOBAL_FATAL_FD: i32 = -1;
pub fn set_fatal_fd(fd: i32) {
    unsafe { GLOBAL_FATAL_FD = fd };
}

/// evaluate one case in a child and fold abnormal endings into violations
pub fn eval_case(check: &dyn Check, case: &Case, timeout: Duration) -> ChildResult {
    let out = run_child(timeout, |fd| {
        set_fatal_fd(fd);
        crate::sim::set_fatal_cb(fatal_cb);
        check.run(case, fd)
    });
    match out {
        ChildOutcome::Done(r) => r,
        ChildOutcome::Fatal(what, rec, diag) => {
            let mut r = ChildResult::default();
            r.recorded = rec;
            match check.judge_abnormal(case, &what) {
                Some(mut v) => {
                    v.detail.push_str(&diag);
                    r.violations.push(v)
                }
                None => r.harness_error = Some(format!("simulator stopped: {}", what)),
            }
            r
        }
        ChildOutcome::Signal(sig) => {
            let mut r = ChildResult::default();
            match check.judge_abnormal(case, &format!("killed by signal {}", sig)) {
                Some(v) => r.violations.push(v),
                None => r.harness_error = Some(format!("child killed by signal {}", sig)),
            }
            r
        }
        ChildOutcome::Timeout => {
            let mut r = ChildResult::default();
            match check.judge_abnormal(case, "wall-clock timeout without reaching the step budget") {
                Some(v) if check.id() == "C12" => r.violations.push(v),
                _ => r.harness_error = Some("child wall-clock timeout".into()),
            }
            r
        }
        ChildOutcome::Garbage(g) => ChildResult { harness_error: Some(g), ..Default::default() },
    }
}

#[derive(Clone, Debug, Serialize, Deserialize, Default)]
pub struct Summary {
    pub runs: u64,
    pub nontrivial: u64,
    pub signatures: BTreeSet<u64>,
    pub interleavings: BTreeSet<u64>,
    pub reach: BTreeMap<String, u64>,
    pub faults: BTreeMap<String, u64>,
    pub per_family: BTreeMap<String, u64>,
    pub sim_time_ns: u64,
    pub steps: u64,
    pub switches: u64,
    pub preemptions: u64,
    pub threads_max: u64,
    pub violations: Vec<(Case, Violation)>,
    /// every violation class seen: (count, first seed)
    pub classes: BTreeMap<String, (u64, u64)>,
    pub harness_errors: Vec<(u64, String)>,
    pub samples: Vec<Value>,
}

impl Summary {
    fn merge(&mut self, o: Summary) {
        self.runs += o.runs;
        self.nontrivial += o.nontrivial;
        self.signatures.extend(o.signatures);
        self.interleavings.extend(o.interleavings);
        for (k, v) in o.reach {
            *self.reach.entry(k).or_insert(0) += v;
        }
        for (k, v) in o.faults {
            *self.faults.entry(k).or_insert(0) += v;
        }
        for (k, v) in o.per_family {
            *self.per_family.entry(k).or_insert(0) += v;
        }
        self.sim_time_ns += o.sim_time_ns;
        self.steps += o.steps;
        self.switches += o.switches;
        self.preemptions += o.preemptions;
        self.threads_max = self.threads_max.max(o.threads_max);
        for (c, v) in o.violations {
            if self.violations.iter().filter(|(_, x)| x.class == v.class).count() < 3 {
                self.violations.push((c, v));
            }
        }
        for (k, (n, s)) in o.classes {
            let e = self.classes.entry(k).or_insert((0, s));
            e.0 += n;
            e.1 = e.1.min(s);
        }
        self.harness_errors.extend(o.harness_errors);
        if self.samples.len() < 6 {
            self.samples.extend(o.samples.into_iter().take(2));
        }
    }
}

pub struct Budget {
    pub runs: u64,
    pub wall: Duration,
    pub jobs: usize,
    pub child_timeout: Duration,
}

/// family of run i and the number of earlier runs of the same family
pub fn family_of<'a>(fams: &[&'a str], i: u64) -> (&'a str, u64) {
    let l = fams.len() as u64;
    let fam = fams[(i % l) as usize];
    let per_period = fams.iter().filter(|f| **f == fam).count() as u64;
    let rank = fams[..(i % l) as usize].iter().filter(|f| **f == fam).count() as u64;
    (fam, (i / l) * per_period + rank)
}

fn worker(check: &dyn Check, tier: Tier, base_seed: u64, k: usize, budget: &Budget, deadline: Instant) -> Summary {
    let fams = check.families(tier);
    let mut sum = Summary::default();
    let mut i = k as u64;
    while i < budget.runs && Instant::now() < deadline {
        let seed = base_seed.wrapping_add(i);
        let (fam, fam_idx) = family_of(&fams, i);
        let case = gen_case(check, base_seed, i, fam, fam_idx, tier);
        let r = eval_case(check, &case, budget.child_timeout);
        sum.runs += 1;
        *sum.per_family.entry(fam.to_string()).or_insert(0) += 1;
        if let Some(e) = &r.harness_error {
            if sum.harness_errors.len() < 5 {
                sum.harness_errors.push((seed, e.clone()));
            }
        }
        if r.nontrivial {
            sum.nontrivial += 1;
            sum.signatures.insert(r.signature);
        }
        for (k2, v) in &r.reach {
            *sum.reach.entry(k2.clone()).or_insert(0) += v;
        }
        if let Some(st) = &r.stats {
            sum.interleavings.insert(st.sched_hash);
            for (k2, v) in &st.faults {
                *sum.faults.entry(k2.clone()).or_insert(0) += v;
            }
            sum.sim_time_ns += st.sim_time_ns;
            sum.steps += st.steps;
            sum.switches += st.switches;
            sum.preemptions += st.preemptions;
            sum.threads_max = sum.threads_max.max(st.threads);
        }
        if sum.samples.len() < 2 && !r.sample.is_null() {
            sum.samples.push(r.sample.clone());
        }
        for v in r.violations.iter() {
            let e = sum.classes.entry(v.class.clone()).or_insert((0, seed));
            e.0 += 1;
            // keep one case per class (bounded), the first one seen
            // keep a few cases per class (bounded), the first ones seen: a case that does not reproduce from its
            // seed or its recorded decisions is never reported, and must not hide the ones that do
            if sum.violations.len() < 36 && sum.violations.iter().filter(|(_, x)| x.class == v.class).count() < 3 {
                let mut c = case.clone();
                c.recorded = r.recorded.clone();
                sum.violations.push((c, v.clone()));
            }
        }
        i += budget.jobs as u64;
    }
    sum
}

/// run the search on `jobs` worker processes
pub fn explore(check: &dyn Check, tier: Tier, base_seed: u64, budget: &Budget) -> Summary {
    let deadline = Instant::now() + budget.wall;
    let mut pipes = vec![];
    for k in 0..budget.jobs {
        let mut fds = [0i32; 2];
        unsafe { libc::pipe(fds.as_mut_ptr()) };
        let pid = unsafe { libc::fork() };
        if pid == 0 {
            unsafe { libc::close(fds[0]) };
            for (r, _) in &pipes {
                unsafe { libc::close(*r) };
            }
            let s = worker(check, tier, base_seed, k, budget, deadline);
            let text = serde_json::to_string(&s).unwrap();
            crate::sim::raw_write_fd(fds[1], text.as_bytes());
            unsafe { libc::_exit(0) };
        }
        unsafe { libc::close(fds[1]) };
        pipes.push((fds[0], pid));
    }
    let mut total = Summary::default();
    for (rfd, pid) in pipes {
        let mut f = unsafe { std::fs::File::from_raw_fd(rfd) };
        let mut text = String::new();
        let _ = f.read_to_string(&mut text);
        let mut status = 0;
        unsafe { libc::waitpid(pid, &mut status, 0) };
        match serde_json::from_str::<Summary>(&text) {
            Ok(s) => total.merge(s),
            Err(e) => total.harness_errors.push((0, format!("worker summary unreadable: {}", e))),
        }
    }
    total
}

// ---------------------------------------------------------------------------
// minimisation
// ---------------------------------------------------------------------------

pub fn still_fails(check: &dyn Check, case: &Case, class: &str, timeout: Duration) -> Option<ChildResult> {
    let r = eval_case(check, case, timeout);
    if r.violations.iter().any(|v| v.class == class) {
        Some(r)
    } else {
        None
    }
}

/// greedy structural + schedule shrinking while the same violation class persists
pub fn minimise(check: &dyn Check, case: &Case, class: &str, timeout: Duration, wall: Duration) -> (Case, u32) {
    let deadline = Instant::now() + wall;
    let mut best = case.clone();
    let mut steps = 0u32;
    // make sure we hold explicit decisions
    if best.recorded.is_none() {
        if let Some(r) = still_fails(check, &best, class, timeout) {
            if r.recorded.is_some() {
                let mut c = best.clone();
                c.recorded = r.recorded;
                if still_fails(check, &c, class, timeout).is_some() {
                    best = c;
                }
            }
        }
    }
    let mut progress = true;
    // schedule chunks get finer whenever a whole pass removes nothing (delta debugging)
    let mut level: u32 = 0;
    let mut finest_done = false;
    while (progress || !finest_done) && Instant::now() < deadline {
        if !progress {
            level += 1;
        }
        progress = false;
        let mut cands: Vec<Case> = vec![];
        // drop the whole schedule / all faults first (is the interleaving needed at all?)
        if let Some(rec) = &best.recorded {
            if !rec.sched.is_empty() {
                let mut c = best.clone();
                c.recorded.as_mut().unwrap().sched.clear();
                cands.push(c);
            }
            if !rec.faults.is_empty() {
                let mut c = best.clone();
                c.recorded.as_mut().unwrap().faults.clear();
                cands.push(c);
            }
        }
        // fewer queries
        for bi in 0..best.batches.len() {
            let n = best.batches[bi].len();
            if n > 1 {
                let mut c = best.clone();
                c.batches[bi].truncate(n / 2);
                cands.push(c);
                let mut c = best.clone();
                c.batches[bi].drain(0..n / 2);
                cands.push(c);
            }
            if n <= 8 {
                for qi in 0..n {
                    let mut c = best.clone();
                    c.batches[bi].remove(qi);
                    cands.push(c);
                }
            }
        }
        if best.batches.len() > 1 {
            for bi in 0..best.batches.len() {
                let mut c = best.clone();
                c.batches.remove(bi);
                cands.push(c);
            }
        }
        if best.workers > 1 {
            let mut c = best.clone();
            c.workers -= 1;
            cands.push(c);
        }
        cands.extend(check.shrink(&best));
        if best.recorded.is_none() {
            finest_done = true;
        }
        // schedule: drop halves, then single decisions; faults: drop one at a time
        if let Some(rec) = &best.recorded {
            let n = rec.sched.len();
            if n <= 1 {
                finest_done = true;
            }
            if n > 1 {
                let mut c = best.clone();
                c.recorded.as_mut().unwrap().sched.truncate(n / 2);
                cands.push(c);
                let mut c = best.clone();
                c.recorded.as_mut().unwrap().sched.drain(0..n / 2);
                cands.push(c);
                let chunk = (n / (8usize << level.min(20))).max(1);
                if chunk == 1 {
                    finest_done = true;
                }
                let mut at = 0;
                while at < n && cands.len() < 400 {
                    let mut c = best.clone();
                    let end = (at + chunk).min(n);
                    c.recorded.as_mut().unwrap().sched.drain(at..end);
                    cands.push(c);
                    at = end;
                }
            }
            for fi in 0..rec.faults.len().min(40) {
                let mut c = best.clone();
                c.recorded.as_mut().unwrap().faults.remove(fi);
                cands.push(c);
            }
        }
        for c in cands {
            if Instant::now() >= deadline {
                break;
            }
            if let Some(r) = still_fails(check, &c, class, timeout) {
                let mut c2 = c.clone();
                // keep the decisions actually consumed by the smaller run (drops unused tail entries)
                if let Some(rec) = r.recorded {
                    let mut c3 = c.clone();
                    c3.recorded = Some(rec);
                    if still_fails(check, &c3, class, timeout).is_some() {
                        c2 = c3;
                    }
                }
                best = c2;
                steps += 1;
                progress = true;
                break;
            }
        }
    }
    (best, steps)
}

pub fn fnv64(s: &str) -> u64 {
    let mut h: u64 = 0xcbf29ce484222325;
    for b in s.bytes() {
        h ^= b as u64;
        h = h.wrapping_mul(0x100000001b3);
    }
    h
}

// ---------------------------------------------------------------------------
// known findings
// ---------------------------------------------------------------------------

#[derive(Clone, Debug, Deserialize)]
pub struct KnownFinding {
    pub property: String,
    pub class: String,
    pub what: String,
}

pub fn load_known(path: &str) -> Vec<KnownFinding> {
    let text = match std::fs::read_to_string(path) {
        Ok(t) => t,
        Err(_) => return vec![],
    };
    let v: Value = match serde_json::from_str(&text) {
        Ok(v) => v,
        Err(_) => return vec![],
    };
    v.get("known").and_then(|k| serde_json::from_value(k.clone()).ok()).unwrap_or_default()
}
