//! Replacement for the ThreadSanitizer runtime. `./check` compiles the three routee-compass crates
//! (and the std code inlined into them: Mutex / RwLock / Arc fast paths) with
//! `-Zsanitizer=thread -Zexternal-clangrt`, so every atomic operation in that code becomes a call
//! into this file instead of an inline instruction. The operation is performed for real; atomic
//! read-modify-writes and stores with acquire/release semantics (lock and unlock fast paths) are
//! reported to the simulator as scheduling points. This is what lets the scheduler preempt a
//! thread between an uncontended unlock and the next lock, where no system call, allocation or
//! clock read exists. Memory-access callbacks are no-ops. No race detection happens here.
#![allow(non_snake_case, clippy::missing_safety_doc)]
use std::sync::atomic::{AtomicU64, Ordering};
pub static ATOMIC_CALLS: AtomicU64 = AtomicU64::new(0);
/// called after an atomic load (and, through `after`, after a relaxed store): a scheduling point of its own
/// kind, so that a reader can be descheduled between two loads of a lock-free protocol
#[inline(always)]
fn hook(_rmw: bool) {
    crate::sim::hook_atomic_load();
}
/// called after the operation took effect (the thread may be descheduled right after a lock release
/// or right after a lock acquisition)
#[inline(always)]
fn after(write: bool, mo: i32) {
    if write && mo != 0 {
        crate::sim::hook_atomic();
    } else if write {
        crate::sim::hook_atomic_load();
    }
}
fn ord(mo: i32) -> Ordering { match mo { 0 => Ordering::Relaxed, 1 | 2 => Ordering::Acquire, 3 => Ordering::Release, 4 => Ordering::AcqRel, _ => Ordering::SeqCst } }
fn ord_load(mo: i32) -> Ordering { match mo { 0 => Ordering::Relaxed, 1 | 2 => Ordering::Acquire, _ => Ordering::SeqCst } }
fn ord_store(mo: i32) -> Ordering { match mo { 0 => Ordering::Relaxed, 3 => Ordering::Release, _ => Ordering::SeqCst } }
#[no_mangle] pub extern "C" fn __tsan_init() {}
#[no_mangle] pub extern "C" fn __tsan_func_entry(_pc: *mut u8) {}
#[no_mangle] pub extern "C" fn __tsan_func_exit() {}
#[no_mangle] pub extern "C" fn __tsan_vptr_update(_a: *mut u8, _b: *mut u8) {}
#[no_mangle] pub extern "C" fn __tsan_vptr_read(_a: *mut u8) {}
#[no_mangle] pub extern "C" fn __tsan_read_range(_a: *mut u8, _n: usize) {}
#[no_mangle] pub extern "C" fn __tsan_write_range(_a: *mut u8, _n: usize) {}
#[no_mangle] pub unsafe extern "C" fn __tsan_memcpy(d: *mut u8, s: *const u8, n: usize) -> *mut u8 { std::ptr::copy_nonoverlapping(s, d, n); d }
#[no_mangle] pub unsafe extern "C" fn __tsan_memmove(d: *mut u8, s: *const u8, n: usize) -> *mut u8 { std::ptr::copy(s, d, n); d }
#[no_mangle] pub unsafe extern "C" fn __tsan_memset(d: *mut u8, c: i32, n: usize) -> *mut u8 { std::ptr::write_bytes(d, c as u8, n); d }
macro_rules! noop_access { ($($name:ident),*) => { $( #[no_mangle] pub extern "C" fn $name(_a: *mut u8) {} )* } }
noop_access!(__tsan_read1, __tsan_read2, __tsan_read4, __tsan_read8, __tsan_read16, __tsan_write1, __tsan_write2, __tsan_write4, __tsan_write8, __tsan_write16,
    __tsan_unaligned_read2, __tsan_unaligned_read4, __tsan_unaligned_read8, __tsan_unaligned_read16, __tsan_unaligned_write2, __tsan_unaligned_write4, __tsan_unaligned_write8, __tsan_unaligned_write16,
    __tsan_read1_pc, __tsan_read2_pc, __tsan_read4_pc, __tsan_read8_pc, __tsan_read16_pc, __tsan_write1_pc, __tsan_write2_pc, __tsan_write4_pc, __tsan_write8_pc, __tsan_write16_pc);
#[no_mangle] pub extern "C" fn __tsan_atomic_thread_fence(mo: i32) { std::sync::atomic::fence(match ord(mo) { Ordering::Relaxed => Ordering::Acquire, o => o }); }
#[no_mangle] pub extern "C" fn __tsan_atomic_signal_fence(mo: i32) { std::sync::atomic::compiler_fence(match ord(mo) { Ordering::Relaxed => Ordering::Acquire, o => o }); }
macro_rules! atomics { ($t:ty, $at:ty, $load:ident, $store:ident, $xchg:ident, $add:ident, $sub:ident, $and:ident, $or:ident, $xor:ident, $nand:ident, $cas_s:ident, $cas_w:ident, $cas_v:ident) => {
    #[no_mangle] pub unsafe extern "C" fn $load(a: *const $t, mo: i32) -> $t { let r = (*(a as *const $at)).load(ord_load(mo)); hook(false); r }
    #[no_mangle] pub unsafe extern "C" fn $store(a: *mut $t, v: $t, mo: i32) { (*(a as *const $at)).store(v, ord_store(mo)); after(true, mo) }
    #[no_mangle] pub unsafe extern "C" fn $xchg(a: *mut $t, v: $t, mo: i32) -> $t { let r = (*(a as *const $at)).swap(v, ord(mo)); after(true, mo); r }
    #[no_mangle] pub unsafe extern "C" fn $add(a: *mut $t, v: $t, mo: i32) -> $t { let r = (*(a as *const $at)).fetch_add(v, ord(mo)); after(true, mo); r }
    #[no_mangle] pub unsafe extern "C" fn $sub(a: *mut $t, v: $t, mo: i32) -> $t { let r = (*(a as *const $at)).fetch_sub(v, ord(mo)); after(true, mo); r }
    #[no_mangle] pub unsafe extern "C" fn $and(a: *mut $t, v: $t, mo: i32) -> $t { let r = (*(a as *const $at)).fetch_and(v, ord(mo)); after(true, mo); r }
    #[no_mangle] pub unsafe extern "C" fn $or(a: *mut $t, v: $t, mo: i32) -> $t { let r = (*(a as *const $at)).fetch_or(v, ord(mo)); after(true, mo); r }
    #[no_mangle] pub unsafe extern "C" fn $xor(a: *mut $t, v: $t, mo: i32) -> $t { let r = (*(a as *const $at)).fetch_xor(v, ord(mo)); after(true, mo); r }
    #[no_mangle] pub unsafe extern "C" fn $nand(a: *mut $t, v: $t, mo: i32) -> $t { let r = (*(a as *const $at)).fetch_nand(v, ord(mo)); after(true, mo); r }
    #[no_mangle] pub unsafe extern "C" fn $cas_s(a: *mut $t, c: *mut $t, v: $t, mo: i32, fmo: i32) -> i32 { let r = match (*(a as *const $at)).compare_exchange(*c, v, ord(mo), ord_load(fmo)) { Ok(_) => 1, Err(cur) => { *c = cur; 0 } }; after(r == 1, mo); r }
    #[no_mangle] pub unsafe extern "C" fn $cas_w(a: *mut $t, c: *mut $t, v: $t, mo: i32, fmo: i32) -> i32 { let r = match (*(a as *const $at)).compare_exchange(*c, v, ord(mo), ord_load(fmo)) { Ok(_) => 1, Err(cur) => { *c = cur; 0 } }; after(r == 1, mo); r }
    #[no_mangle] pub unsafe extern "C" fn $cas_v(a: *mut $t, c: $t, v: $t, mo: i32, fmo: i32) -> $t { match (*(a as *const $at)).compare_exchange(c, v, ord(mo), ord_load(fmo)) { Ok(p) => { after(true, mo); p } Err(cur) => cur } }
} }
use std::sync::atomic::{AtomicU8, AtomicU16, AtomicU32};
atomics!(u8, AtomicU8, __tsan_atomic8_load, __tsan_atomic8_store, __tsan_atomic8_exchange, __tsan_atomic8_fetch_add, __tsan_atomic8_fetch_sub, __tsan_atomic8_fetch_and, __tsan_atomic8_fetch_or, __tsan_atomic8_fetch_xor, __tsan_atomic8_fetch_nand, __tsan_atomic8_compare_exchange_strong, __tsan_atomic8_compare_exchange_weak, __tsan_atomic8_compare_exchange_val);
atomics!(u16, AtomicU16, __tsan_atomic16_load, __tsan_atomic16_store, __tsan_atomic16_exchange, __tsan_atomic16_fetch_add, __tsan_atomic16_fetch_sub, __tsan_atomic16_fetch_and, __tsan_atomic16_fetch_or, __tsan_atomic16_fetch_xor, __tsan_atomic16_fetch_nand, __tsan_atomic16_compare_exchange_strong, __tsan_atomic16_compare_exchange_weak, __tsan_atomic16_compare_exchange_val);
atomics!(u32, AtomicU32, __tsan_atomic32_load, __tsan_atomic32_store, __tsan_atomic32_exchange, __tsan_atomic32_fetch_add, __tsan_atomic32_fetch_sub, __tsan_atomic32_fetch_and, __tsan_atomic32_fetch_or, __tsan_atomic32_fetch_xor, __tsan_atomic32_fetch_nand, __tsan_atomic32_compare_exchange_strong, __tsan_atomic32_compare_exchange_weak, __tsan_atomic32_compare_exchange_val);
atomics!(u64, AtomicU64, __tsan_atomic64_load, __tsan_atomic64_store, __tsan_atomic64_exchange, __tsan_atomic64_fetch_add, __tsan_atomic64_fetch_sub, __tsan_atomic64_fetch_and, __tsan_atomic64_fetch_or, __tsan_atomic64_fetch_xor, __tsan_atomic64_fetch_nand, __tsan_atomic64_compare_exchange_strong, __tsan_atomic64_compare_exchange_weak, __tsan_atomic64_compare_exchange_val);
