//! libc symbols overridden in the harness binary. The executable's definitions win at static link
//! time over libc.so's, so the *unmodified* std / rayon / crossbeam / chrono / kdam code calls these.
//! Each hook first asks the simulator; when the calling thread is not simulated (or the object is
//! not a simulated one) it falls through to the real system call.

use crate::sim;
use libc::{c_char, c_int, c_long, c_uint, c_void, size_t, ssize_t};
use std::alloc::{GlobalAlloc, Layout, System};
use std::sync::atomic::AtomicU32;

unsafe fn set_errno(e: i32) {
    *libc::__errno_location() = e;
}
unsafe fn ret(r: i64) -> i64 {
    if r < 0 && r > -4096 {
        set_errno((-r) as i32);
        -1
    } else {
        r
    }
}

pub struct SimAlloc;
unsafe impl GlobalAlloc for SimAlloc {
    unsafe fn alloc(&self, l: Layout) -> *mut u8 {
        sim::hook_alloc(l.size());
        System.alloc(l)
    }
    unsafe fn dealloc(&self, p: *mut u8, l: Layout) {
        System.dealloc(p, l)
    }
    unsafe fn alloc_zeroed(&self, l: Layout) -> *mut u8 {
        sim::hook_alloc(l.size());
        System.alloc_zeroed(l)
    }
    unsafe fn realloc(&self, p: *mut u8, l: Layout, n: usize) -> *mut u8 {
        sim::hook_alloc(n.saturating_sub(l.size()));
        System.realloc(p, l, n)
    }
}

#[no_mangle]
pub unsafe extern "C" fn syscall(n: c_long, a1: c_long, a2: c_long, a3: c_long, a4: c_long, a5: c_long, a6: c_long) -> c_long {
    if n == libc::SYS_futex {
        if let Some((r, e)) = sim::hook_futex(a1 as *const AtomicU32, a2 as i32, a3 as u32, a4 as *const libc::timespec, a5, a6 as u32) {
            if r < 0 {
                set_errno(e);
            }
            return r;
        }
    } else if n == libc::SYS_getrandom {
        let buf = std::slice::from_raw_parts_mut(a1 as *mut u8, a2 as usize);
        if sim::hook_getrandom(buf) {
            return a2;
        }
    }
    ret(sim::raw_syscall6(n, a1, a2, a3, a4, a5, a6))
}

#[no_mangle]
pub unsafe extern "C" fn getrandom(buf: *mut c_void, len: size_t, flags: c_uint) -> ssize_t {
    let b = std::slice::from_raw_parts_mut(buf as *mut u8, len);
    if sim::hook_getrandom(b) {
        return len as ssize_t;
    }
    ret(sim::raw_syscall6(libc::SYS_getrandom, buf as i64, len as i64, flags as i64, 0, 0, 0)) as ssize_t
}

#[no_mangle]
pub unsafe extern "C" fn sched_yield() -> c_int {
    if sim::hook_sched_yield() {
        return 0;
    }
    ret(sim::raw_syscall6(libc::SYS_sched_yield, 0, 0, 0, 0, 0, 0)) as c_int
}

// ---------------------------------------------------------------------------
// threads created by the code under test (not through the harness's pool builder) are simulated
// threads as well: registered by their creator, scheduled like any other, joined by yielding
// ---------------------------------------------------------------------------

struct Tramp {
    start: extern "C" fn(*mut c_void) -> *mut c_void,
    arg: *mut c_void,
    id: usize,
}

extern "C" fn tramp(p: *mut c_void) -> *mut c_void {
    let t = unsafe { Box::from_raw(p as *mut Tramp) };
    sim::thread_begin(t.id);
    let r = (t.start)(t.arg);
    sim::thread_end();
    r
}

type PthreadCreate = unsafe extern "C" fn(*mut libc::pthread_t, *const libc::pthread_attr_t, extern "C" fn(*mut c_void) -> *mut c_void, *mut c_void) -> c_int;
type PthreadJoin = unsafe extern "C" fn(libc::pthread_t, *mut *mut c_void) -> c_int;

unsafe fn next_sym(name: &[u8]) -> *mut c_void {
    libc::dlsym(libc::RTLD_NEXT, name.as_ptr() as *const c_char)
}

#[no_mangle]
pub unsafe extern "C" fn pthread_create(t: *mut libc::pthread_t, attr: *const libc::pthread_attr_t, start: extern "C" fn(*mut c_void) -> *mut c_void, arg: *mut c_void) -> c_int {
    let real: PthreadCreate = std::mem::transmute(next_sym(b"pthread_create\0"));
    if sim::spawns_are_simulated() {
        let id = sim::register_thread();
        let boxed = Box::into_raw(Box::new(Tramp { start, arg, id }));
        let r = real(t, attr, tramp, boxed as *mut c_void);
        if r == 0 {
            sim::thread_spawned_as(id, *t);
        } else {
            drop(Box::from_raw(boxed));
            sim::thread_never_started(id);
        }
        return r;
    }
    real(t, attr, start, arg)
}

#[no_mangle]
pub unsafe extern "C" fn pthread_join(th: libc::pthread_t, ret_val: *mut *mut c_void) -> c_int {
    let real: PthreadJoin = std::mem::transmute(next_sym(b"pthread_join\0"));
    // a simulated thread joining a simulated thread: yield until the simulator has seen it finish
    sim::wait_finished(th);
    real(th, ret_val)
}

/// canonical form of a simulated path: the simulated disk has no links and the generated paths no dots, so an
/// existing file's path is canonical as it stands
#[no_mangle]
pub unsafe extern "C" fn realpath(path: *const c_char, resolved: *mut c_char) -> *mut c_char {
    type Real = unsafe extern "C" fn(*const c_char, *mut c_char) -> *mut c_char;
    if !path.is_null() {
        if let Some(r) = sim::hook_stat_path(cstr_bytes(path)) {
            return match r {
                Ok(_) => {
                    let n = libc::strlen(path) + 1;
                    let out = if resolved.is_null() { libc::malloc(n) as *mut c_char } else { resolved };
                    if !out.is_null() {
                        std::ptr::copy_nonoverlapping(path, out, n);
                    }
                    out
                }
                Err(e) => {
                    *libc::__errno_location() = e;
                    std::ptr::null_mut()
                }
            };
        }
    }
    let real: Real = std::mem::transmute(next_sym(b"realpath\0"));
    real(path, resolved)
}

#[no_mangle]
pub unsafe extern "C" fn rename(old: *const c_char, new: *const c_char) -> c_int {
    match sim::hook_rename(cstr_bytes(old), cstr_bytes(new)) {
        Some(Ok(())) => 0,
        Some(Err(e)) => {
            *libc::__errno_location() = e;
            -1
        }
        None => ret(sim::raw_syscall6(libc::SYS_rename, old as i64, new as i64, 0, 0, 0, 0)) as c_int,
    }
}
#[no_mangle]
pub unsafe extern "C" fn unlink(path: *const c_char) -> c_int {
    match sim::hook_unlink(cstr_bytes(path)) {
        Some(Ok(())) => 0,
        Some(Err(e)) => {
            *libc::__errno_location() = e;
            -1
        }
        None => ret(sim::raw_syscall6(libc::SYS_unlink, path as i64, 0, 0, 0, 0, 0)) as c_int,
    }
}

#[no_mangle]
pub unsafe extern "C" fn ftruncate(fd: c_int, len: i64) -> c_int {
    match sim::hook_ftruncate(fd, len) {
        Some(Ok(())) => 0,
        Some(Err(e)) => {
            *libc::__errno_location() = e;
            -1
        }
        None => ret(sim::raw_syscall6(libc::SYS_ftruncate, fd as i64, len, 0, 0, 0, 0)) as c_int,
    }
}
#[no_mangle]
pub unsafe extern "C" fn ftruncate64(fd: c_int, len: i64) -> c_int {
    ftruncate(fd, len)
}

/// sleeping is simulated: the clock jumps by the requested duration and the thread yields
#[no_mangle]
pub unsafe extern "C" fn nanosleep(req: *const libc::timespec, rem: *mut libc::timespec) -> c_int {
    if !req.is_null() && sim::hook_sleep((*req).tv_sec as u64 * 1_000_000_000 + (*req).tv_nsec as u64) {
        if !rem.is_null() {
            (*rem).tv_sec = 0;
            (*rem).tv_nsec = 0;
        }
        return 0;
    }
    ret(sim::raw_syscall6(libc::SYS_nanosleep, req as i64, rem as i64, 0, 0, 0, 0)) as c_int
}

#[no_mangle]
pub unsafe extern "C" fn clock_nanosleep(clk: libc::clockid_t, flags: c_int, req: *const libc::timespec, rem: *mut libc::timespec) -> c_int {
    if !req.is_null() && flags & libc::TIMER_ABSTIME == 0 && sim::hook_sleep((*req).tv_sec as u64 * 1_000_000_000 + (*req).tv_nsec as u64) {
        if !rem.is_null() {
            (*rem).tv_sec = 0;
            (*rem).tv_nsec = 0;
        }
        return 0;
    }
    // (returns the error number itself, not -1/errno)
    let r = sim::raw_syscall6(libc::SYS_clock_nanosleep, clk as i64, flags as i64, req as i64, rem as i64, 0, 0);
    if r < 0 { (-r) as c_int } else { 0 }
}

#[no_mangle]
pub unsafe extern "C" fn clock_gettime(clk: libc::clockid_t, ts: *mut libc::timespec) -> c_int {
    if let Some(ns) = sim::hook_clock(clk) {
        (*ts).tv_sec = (ns / 1_000_000_000) as libc::time_t;
        (*ts).tv_nsec = (ns % 1_000_000_000) as c_long;
        return 0;
    }
    ret(sim::raw_syscall6(libc::SYS_clock_gettime, clk as i64, ts as i64, 0, 0, 0, 0)) as c_int
}

#[no_mangle]
pub unsafe extern "C" fn gettimeofday(tv: *mut libc::timeval, _tz: *mut c_void) -> c_int {
    if let Some(ns) = sim::hook_clock(libc::CLOCK_REALTIME) {
        (*tv).tv_sec = (ns / 1_000_000_000) as libc::time_t;
        (*tv).tv_usec = ((ns % 1_000_000_000) / 1000) as libc::suseconds_t;
        return 0;
    }
    ret(sim::raw_syscall6(libc::SYS_gettimeofday, tv as i64, 0, 0, 0, 0, 0)) as c_int
}

unsafe fn cstr_bytes<'a>(p: *const c_char) -> &'a [u8] {
    std::ffi::CStr::from_ptr(p).to_bytes()
}

unsafe fn do_open(dirfd: c_int, path: *const c_char, flags: c_int, mode: libc::mode_t) -> c_int {
    if !path.is_null() {
        if let Some(r) = sim::hook_open(cstr_bytes(path), flags) {
            return match r {
                Ok(fd) => fd,
                Err(e) => {
                    set_errno(e);
                    -1
                }
            };
        }
    }
    ret(sim::raw_syscall6(libc::SYS_openat, dirfd as i64, path as i64, flags as i64, mode as i64, 0, 0)) as c_int
}

#[no_mangle]
pub unsafe extern "C" fn open64(path: *const c_char, flags: c_int, mode: libc::mode_t) -> c_int {
    do_open(libc::AT_FDCWD, path, flags, mode)
}
#[no_mangle]
pub unsafe extern "C" fn open(path: *const c_char, flags: c_int, mode: libc::mode_t) -> c_int {
    do_open(libc::AT_FDCWD, path, flags, mode)
}
#[no_mangle]
pub unsafe extern "C" fn openat64(dirfd: c_int, path: *const c_char, flags: c_int, mode: libc::mode_t) -> c_int {
    do_open(dirfd, path, flags, mode)
}
#[no_mangle]
pub unsafe extern "C" fn openat(dirfd: c_int, path: *const c_char, flags: c_int, mode: libc::mode_t) -> c_int {
    do_open(dirfd, path, flags, mode)
}

#[no_mangle]
pub unsafe extern "C" fn close(fd: c_int) -> c_int {
    if let Some(r) = sim::hook_close(fd) {
        return r;
    }
    ret(sim::raw_syscall6(libc::SYS_close, fd as i64, 0, 0, 0, 0, 0)) as c_int
}

#[no_mangle]
pub unsafe extern "C" fn read(fd: c_int, buf: *mut c_void, n: size_t) -> ssize_t {
    if let Some(r) = sim::hook_read(fd, std::slice::from_raw_parts_mut(buf as *mut u8, n)) {
        return match r {
            Ok(k) => k as ssize_t,
            Err(e) => {
                set_errno(e);
                -1
            }
        };
    }
    ret(sim::raw_syscall6(libc::SYS_read, fd as i64, buf as i64, n as i64, 0, 0, 0)) as ssize_t
}

#[no_mangle]
pub unsafe extern "C" fn write(fd: c_int, buf: *const c_void, n: size_t) -> ssize_t {
    if sim::swallow_fd(fd) {
        return n as ssize_t;
    }
    if let Some(r) = sim::hook_write(fd, std::slice::from_raw_parts(buf as *const u8, n)) {
        return match r {
            Ok(k) => k as ssize_t,
            Err(e) => {
                set_errno(e);
                -1
            }
        };
    }
    ret(sim::raw_syscall6(libc::SYS_write, fd as i64, buf as i64, n as i64, 0, 0, 0)) as ssize_t
}

#[no_mangle]
pub unsafe extern "C" fn writev(fd: c_int, iov: *const libc::iovec, cnt: c_int) -> ssize_t {
    if sim::swallow_fd(fd) {
        let mut t = 0;
        for i in 0..cnt as usize {
            t += (*iov.add(i)).iov_len;
        }
        return t as ssize_t;
    }
    if sim::is_sim_fd(fd) {
        // write the first non-empty buffer only (a legal short write of the vector)
        for i in 0..cnt as usize {
            let v = &*iov.add(i);
            if v.iov_len > 0 {
                return write(fd, v.iov_base, v.iov_len);
            }
        }
        return 0;
    }
    ret(sim::raw_syscall6(libc::SYS_writev, fd as i64, iov as i64, cnt as i64, 0, 0, 0)) as ssize_t
}

#[no_mangle]
pub unsafe extern "C" fn readv(fd: c_int, iov: *const libc::iovec, cnt: c_int) -> ssize_t {
    if sim::is_sim_fd(fd) {
        for i in 0..cnt as usize {
            let v = &*iov.add(i);
            if v.iov_len > 0 {
                return read(fd, v.iov_base, v.iov_len);
            }
        }
        return 0;
    }
    ret(sim::raw_syscall6(libc::SYS_readv, fd as i64, iov as i64, cnt as i64, 0, 0, 0)) as ssize_t
}

#[no_mangle]
pub unsafe extern "C" fn lseek64(fd: c_int, off: i64, whence: c_int) -> i64 {
    if let Some(r) = sim::hook_lseek(fd, off, whence) {
        return match r {
            Ok(p) => p,
            Err(e) => {
                set_errno(e);
                -1
            }
        };
    }
    ret(sim::raw_syscall6(libc::SYS_lseek, fd as i64, off, whence as i64, 0, 0, 0))
}
#[no_mangle]
pub unsafe extern "C" fn lseek(fd: c_int, off: i64, whence: c_int) -> i64 {
    lseek64(fd, off, whence)
}

unsafe fn fill_stat(st: *mut libc::stat64, is_dir: bool, len: u64, mtime_ns: u64) {
    std::ptr::write_bytes(st as *mut u8, 0, std::mem::size_of::<libc::stat64>());
    (*st).st_mode = if is_dir { libc::S_IFDIR | 0o755 } else { libc::S_IFREG | 0o644 };
    (*st).st_size = len as i64;
    (*st).st_nlink = 1;
    (*st).st_blksize = 4096;
    (*st).st_blocks = ((len + 511) / 512) as i64;
    (*st).st_mtime = (mtime_ns / 1_000_000_000) as i64;
    (*st).st_mtime_nsec = (mtime_ns % 1_000_000_000) as i64;
    (*st).st_ctime = (*st).st_mtime;
    (*st).st_ctime_nsec = (*st).st_mtime_nsec;
    (*st).st_atime = (*st).st_mtime;
    (*st).st_atime_nsec = (*st).st_mtime_nsec;
}

unsafe fn stat_result(r: Result<(bool, u64, u64), i32>, st: *mut libc::stat64) -> c_int {
    match r {
        Ok((d, l, m)) => {
            fill_stat(st, d, l, m);
            0
        }
        Err(e) => {
            set_errno(e);
            -1
        }
    }
}

#[no_mangle]
pub unsafe extern "C" fn stat64(path: *const c_char, st: *mut libc::stat64) -> c_int {
    if let Some(r) = sim::hook_stat_path(cstr_bytes(path)) {
        return stat_result(r, st);
    }
    ret(sim::raw_syscall6(libc::SYS_newfstatat, libc::AT_FDCWD as i64, path as i64, st as i64, 0, 0, 0)) as c_int
}
#[no_mangle]
pub unsafe extern "C" fn stat(path: *const c_char, st: *mut libc::stat64) -> c_int {
    stat64(path, st)
}
#[no_mangle]
pub unsafe extern "C" fn lstat64(path: *const c_char, st: *mut libc::stat64) -> c_int {
    if let Some(r) = sim::hook_stat_path(cstr_bytes(path)) {
        return stat_result(r, st);
    }
    ret(sim::raw_syscall6(libc::SYS_newfstatat, libc::AT_FDCWD as i64, path as i64, st as i64, libc::AT_SYMLINK_NOFOLLOW as i64, 0, 0)) as c_int
}
#[no_mangle]
pub unsafe extern "C" fn lstat(path: *const c_char, st: *mut libc::stat64) -> c_int {
    lstat64(path, st)
}
#[no_mangle]
pub unsafe extern "C" fn fstat64(fd: c_int, st: *mut libc::stat64) -> c_int {
    if let Some(r) = sim::hook_stat_fd(fd) {
        return stat_result(r, st);
    }
    ret(sim::raw_syscall6(libc::SYS_fstat, fd as i64, st as i64, 0, 0, 0, 0)) as c_int
}
#[no_mangle]
pub unsafe extern "C" fn fstat(fd: c_int, st: *mut libc::stat64) -> c_int {
    fstat64(fd, st)
}

#[no_mangle]
pub unsafe extern "C" fn statx(dirfd: c_int, path: *const c_char, flags: c_int, mask: c_uint, buf: *mut libc::statx) -> c_int {
    let r = if !path.is_null() && *path != 0 {
        sim::hook_stat_path(cstr_bytes(path))
    } else if flags & libc::AT_EMPTY_PATH != 0 {
        sim::hook_stat_fd(dirfd)
    } else {
        None
    };
    if let Some(r) = r {
        return match r {
            Ok((is_dir, len, mtime_ns)) => {
                if !buf.is_null() {
                    std::ptr::write_bytes(buf as *mut u8, 0, std::mem::size_of::<libc::statx>());
                    (*buf).stx_mask = libc::STATX_BASIC_STATS;
                    (*buf).stx_mode = (if is_dir { libc::S_IFDIR | 0o755 } else { libc::S_IFREG | 0o644 }) as u16;
                    (*buf).stx_size = len;
                    (*buf).stx_nlink = 1;
                    (*buf).stx_blksize = 4096;
                    (*buf).stx_blocks = (len + 511) / 512;
                    (*buf).stx_mtime.tv_sec = (mtime_ns / 1_000_000_000) as i64;
                    (*buf).stx_mtime.tv_nsec = (mtime_ns % 1_000_000_000) as u32;
                    (*buf).stx_ctime = (*buf).stx_mtime;
                    (*buf).stx_atime = (*buf).stx_mtime;
                    (*buf).stx_btime = (*buf).stx_mtime;
                }
                0
            }
            Err(e) => {
                set_errno(e);
                -1
            }
        };
    }
    ret(sim::raw_syscall6(libc::SYS_statx, dirfd as i64, path as i64, flags as i64, mask as i64, buf as i64, 0)) as c_int
}
