//! Workload generator: a small road network, its files, an application configuration and a batch.
//! Everything is plain data (serialisable), so a failing case can be shrunk structurally and replayed.

use crate::sim::Rng;
use serde::{Deserialize, Serialize};
use serde_json::{json, Value};
use std::io::Write;

#[derive(Clone, Debug, Serialize, Deserialize)]
pub struct VehicleCfg {
    pub name: String,
    pub kind: String, // ice | bev | phev
    pub model: String,
    pub model2: Option<String>, // phev: charge sustaining
    pub interpolate: bool,
    pub cache: Option<(usize, i32, i32)>, // size, speed precision, grade precision
    pub battery_kwh: f64,
    pub adjustment: Option<f64>,
    /// unit the battery capacity is configured in (None: kilowatt_hours); the capacity is the same
    /// physical quantity, converted with the repository's own factor
    #[serde(default)]
    pub battery_unit: Option<String>,
    /// the ideal (best-case) energy rate is configured instead of being found by a sweep of the model when
    /// the application is built - the model is then first asked for a prediction by a query
    #[serde(default)]
    pub ideal_rate_configured: bool,
    /// the speed and grade units the vehicle's prediction model is declared to take its inputs in
    /// (None: miles_per_hour / decimal, as before round 6). A vehicle of its own: two vehicles may share one
    /// model file and model type and still declare different units
    #[serde(default)]
    pub model_units: Option<(String, String)>,
    /// size of the interpolation grid (speed bins, grade bins); None = 21 x 9
    #[serde(default)]
    pub interp_bins: Option<(usize, usize)>,
}

/// the exact decimal expansion of the midpoint between an f32 and its neighbour of larger magnitude, with one
/// more digit appended: a number a hair beyond the midpoint, nearest to the neighbour of larger magnitude
pub fn just_beyond_f32_midpoint(a: f32) -> String {
    let b = f32::from_bits(a.to_bits() + 1);
    let m = (a as f64 + b as f64) / 2.0; // exact: both have 24 significant bits
    let mut t = format!("{:.70}", m);
    while t.ends_with('0') {
        t.pop();
    }
    t.push('1');
    t
}

/// upper bounds of the interpolation grid in the declared units (the grid spans 0..speed, -grade..grade)
pub fn interpolation_bounds(speed_unit: &str, grade_unit: &str) -> (f64, f64) {
    (
        match speed_unit {
            "kilometers_per_hour" => 160.0,
            "meters_per_second" => 45.0,
            _ => 100.0,
        },
        match grade_unit {
            "percent" => 20.0,
            "millis" => 200.0,
            _ => 0.2,
        },
    )
}

#[derive(Clone, Debug, Serialize, Deserialize)]
pub enum Traversal {
    Distance { unit: String },
    Speed { speed_unit: String, distance_unit: Option<String>, time_unit: Option<String> },
    Energy {
        speed_unit: String,
        grade_unit: String,
        vehicles: Vec<VehicleCfg>,
        /// units of the energy model itself (None: miles / minutes, as before round 2)
        #[serde(default)]
        distance_unit: Option<String>,
        #[serde(default)]
        time_unit: Option<String>,
        /// output units of the wrapped time model (None: miles / minutes)
        #[serde(default)]
        time_model_units: Option<(String, String)>,
    },
}

#[derive(Clone, Debug, Serialize, Deserialize)]
pub enum OutFormat {
    Json,
    /// one JSON array over the whole file (`newline_delimited = false`); only C12 uses it (no listed property
    /// speaks about the contents of such a file, but writing it must not hang or panic either)
    JsonArray,
    Csv { mapping: Vec<(String, Value)>, sorted: bool },
}

#[derive(Clone, Debug, Serialize, Deserialize)]
pub struct OutFile {
    pub format: OutFormat,
    pub flush_rate: Option<i64>,
    pub preexisting: bool,
}

#[derive(Clone, Debug, Serialize, Deserialize)]
pub struct World {
    pub coords: Vec<(f64, f64)>,
    /// (src, dst, distance in metres)
    pub edges: Vec<(usize, usize, f64)>,
    pub speeds: Vec<f64>,
    pub grades: Vec<f64>,
    pub gz_edges: bool,
    pub gz_vertices: bool,
    pub gz_tables: bool,
    /// gzip files are named without the .gz suffix (content sniffing has to find out)
    #[serde(default)]
    pub gz_misnamed: bool,
    /// text shape of the input files: 0 = LF with final newline, 1 = CRLF, 2 = LF without final newline
    #[serde(default)]
    pub text_variant: u8,
    /// column order of the vertex file, may contain extra columns
    pub vertex_cols: Vec<String>,
    /// blank lines in the edge / vertex CSV files (the CSV reader skips them; a scan of the file's lines
    /// counts them): 0 none, 1 one after the last record, 2 after the header and in the middle as well
    #[serde(default)]
    pub csv_blank_lines: u8,
    /// gzip files consist of this many members (0 / 1 = a single member, as gzip writes them)
    #[serde(default)]
    pub gz_members: u8,
    /// directory of the input files below /sim/ ("" or e.g. "a/"): two networks may use the same file names
    #[serde(default)]
    pub subdir: String,
    /// vertices whose x coordinate is written with this text instead (a decimal of some twenty digits just beyond
    /// the midpoint of two neighbouring f32 values: the listed coordinate is the f32 nearest to the *decimal*)
    #[serde(default)]
    pub x_text: std::collections::BTreeMap<usize, String>,
    pub explicit_counts: bool,
    pub traversal: Traversal,
    pub algorithm: Value,
    pub termination: Value,
    /// the reference (isolated) application runs without effective limits
    #[serde(default)]
    pub ref_unlimited: bool,
    pub edge_oriented: bool,
    pub weights: Vec<(String, f64)>,
    pub input_plugins: Vec<Value>,
    pub summary_plugin: bool,
    pub traversal_plugin: Option<(String, Option<String>)>, // route format, tree format
    pub parallelism: usize,
    pub persist: bool,
    pub out: Option<OutFile>,
    /// a second file sink: the output policy becomes `combined` of both
    #[serde(default)]
    pub out2: Option<OutFile>,
    /// turn-delay access model: per-edge (arrival heading, departure heading) rows + the delay table (seconds)
    #[serde(default)]
    pub headings: Option<Vec<(i16, Option<i16>)>>,
    #[serde(default)]
    pub turn_delays: Option<Vec<(String, f64)>>,
    /// road-class frontier model: one class per edge
    #[serde(default)]
    pub road_classes: Option<Vec<u8>>,
    /// uuid output plugin (vertex i has the identifier `uuid_of(i)`)
    #[serde(default)]
    pub uuid_plugin: bool,
    /// the persistence and output policies are given per run (run configuration) instead of in the
    /// application configuration, which then keeps its defaults
    #[serde(default)]
    pub policies_at_run_level: bool,
    /// which sinks each run() call writes to (bit 0: `out`, bit 1: `out2`), given as that run's output
    /// policy override; None = every run uses the configured policy
    #[serde(default)]
    pub per_run_sinks: Option<Vec<u8>>,
    /// file names (without extension, below /sim/) of the two response files; None = "out" / "out2". The second may
    /// sort before the first, and both may share one stem when their formats - hence extensions - differ
    #[serde(default)]
    pub out_stems: Option<(String, String)>,
    /// the configuration's termination section leaves out its `type` key and relies on the shipped default
    /// (`query_runtime`): only set when the model is a plain runtime limit
    #[serde(default)]
    pub termination_partial: bool,
}

pub fn uuid_of(v: usize) -> String {
    format!("node-{:04}-{}", v, (v * 7919 + 13) % 1000)
}

pub const PREEXISTING_JSON: &str = "{\"request\":{\"_old\":1},\"error\":\"left by an earlier session\"}\n";

pub fn q9(x: f64) -> f64 {
    (x * 1e9).round() / 1e9
}
pub fn q6(x: f64) -> f64 {
    (x * 1e6).round() / 1e6
}

pub fn haversine_m(a: (f64, f64), b: (f64, f64)) -> f64 {
    let r = 6_371_000.0_f64;
    let (lon1, lat1) = (a.0.to_radians(), a.1.to_radians());
    let (lon2, lat2) = (b.0.to_radians(), b.1.to_radians());
    let dlat = lat2 - lat1;
    let dlon = lon2 - lon1;
    let h = (dlat / 2.0).sin().powi(2) + lat1.cos() * lat2.cos() * (dlon / 2.0).sin().powi(2);
    2.0 * r * h.sqrt().asin()
}

fn gz(data: &[u8]) -> Vec<u8> {
    // like the gzip command line tool: the member header carries the original file name and a modification
    // time (sometimes also a comment and an extra field - all optional parts of RFC 1952 headers)
    let h = data.len() % 4;
    let mut b = flate2::GzBuilder::new();
    if h >= 1 {
        b = b.filename("table.csv").mtime(1_700_000_000 + data.len() as u32);
    }
    if h >= 2 {
        b = b.comment("exported for routing");
    }
    if h == 3 {
        b = b.extra(vec![b'A', b'P', 2, 0, 1, 2]);
    }
    // (level 0 writes stored blocks: a damaged payload byte still inflates, only the CRC-32 in the trailer tells)
    let level = if data.len() % 5 == 0 { flate2::Compression::none() } else if data.len() % 3 == 0 { flate2::Compression::fast() } else { flate2::Compression::default() };
    let mut e = b.write(Vec::new(), level);
    e.write_all(data).unwrap();
    e.finish().unwrap()
}

/// a gzip file of several members (what `cat a.gz b.gz`, pigz -i or bgzip produce: RFC 1952 2.2 says a
/// reader must treat it as the concatenation of the members' contents); members end at line ends
fn gz_members(data: &[u8], members: u8) -> Vec<u8> {
    if members <= 1 || data.len() < 4 {
        return gz(data);
    }
    let mut out = vec![];
    let mut start = 0;
    for k in 1..=members as usize {
        let mut end = if k == members as usize { data.len() } else { (data.len() * k / members as usize).max(start) };
        while end < data.len() && end > start && data[end - 1] != b'\n' {
            end += 1;
        }
        if end > start {
            out.extend(gz(&data[start..end]));
        }
        start = end;
    }
    out
}

/// the configured battery capacity: (value, unit name)
fn battery(v: &VehicleCfg) -> (f64, String) {
    match v.battery_unit.as_deref() {
        Some("gallons_gasoline") => (v.battery_kwh * 0.031, "gallons_gasoline".into()),
        Some("gallons_diesel") => (v.battery_kwh * 0.02457, "gallons_diesel".into()),
        _ => (v.battery_kwh, "kilowatt_hours".into()),
    }
}

fn gz_members_of(w: &World, data: &[u8]) -> Vec<u8> {
    gz_members(data, w.gz_members)
}

fn fmt_f(x: f64) -> String {
    // shortest round-trip representation
    format!("{}", x)
}

pub struct GraphParams {
    pub nv: (u64, u64),
    pub extra_edge_factor: f64,
    pub p_disconnected: f64,
    pub p_no_dead_ends: f64,
}

impl Default for GraphParams {
    fn default() -> Self {
        GraphParams { nv: (3, 24), extra_edge_factor: 1.5, p_disconnected: 0.3, p_no_dead_ends: 0.0 }
    }
}

impl World {
    pub fn nv(&self) -> usize {
        self.coords.len()
    }
    pub fn ne(&self) -> usize {
        self.edges.len()
    }

    /// generate the network part
    pub fn gen_graph(r: &mut Rng, gp: &GraphParams) -> World {
        let nv = r.range(gp.nv.0, gp.nv.1) as usize;
        let mut coords = vec![];
        for _ in 0..nv {
            // six decimals: survives every JSON text round trip bit for bit (the loader stores f32)
            let x = q6(-105.0 + (r.f64() - 0.5) * 0.2);
            let y = q6(39.7 + (r.f64() - 0.5) * 0.2);
            coords.push((x, y));
        }
        let mut pairs: Vec<(usize, usize)> = vec![];
        // a backbone so that many pairs are connected; sometimes split in two components
        let split = if r.chance(gp.p_disconnected) && nv >= 4 { r.range(1, nv as u64 - 2) as usize } else { nv };
        let mut order: Vec<usize> = (0..nv).collect();
        r.shuffle(&mut order);
        for i in 1..nv {
            if i == split {
                continue;
            }
            let a = order[i - 1];
            let b = order[i];
            pairs.push((a, b));
            if r.chance(0.7) {
                pairs.push((b, a));
            }
        }
        let extra = (nv as f64 * gp.extra_edge_factor * r.f64()) as usize;
        for _ in 0..extra {
            let a = r.below(nv as u64) as usize;
            // stay within the component
            let (lo, hi) = {
                let pos = order.iter().position(|v| *v == a).unwrap();
                if pos < split { (0, split) } else { (split, nv) }
            };
            let b = order[lo + r.below((hi - lo) as u64) as usize];
            pairs.push((a, b)); // may be a self loop or a parallel edge
        }
        // a hub with degree > 4 (adjacency container changes representation at 1,2,3,4,>4)
        if nv >= 6 && r.chance(0.5) {
            let hub = order[0];
            let lim = split.min(nv);
            for k in 1..lim.min(8) {
                pairs.push((hub, order[k]));
                if r.chance(0.5) {
                    pairs.push((order[k], hub));
                }
            }
        }
        if r.chance(gp.p_no_dead_ends) {
            let mut has_out = vec![false; nv];
            for (a, _) in &pairs {
                has_out[*a] = true;
            }
            for v in 0..nv {
                if !has_out[v] {
                    // a back edge to some vertex
                    let b = r.below(nv as u64) as usize;
                    pairs.push((v, b));
                }
            }
        }
        r.shuffle(&mut pairs);
        let mut edges = vec![];
        let mut speeds = vec![];
        let mut grades = vec![];
        for (a, b) in pairs {
            let gc = haversine_m(coords[a], coords[b]);
            let d = q6(gc * (1.0 + r.f64() * 0.8) + 1.0 + r.f64() * 50.0);
            edges.push((a, b, d));
            speeds.push(q6(10.0 + r.f64() * 110.0));
            grades.push(q6((r.f64() - 0.5) * 0.2));
        }
        let mut vertex_cols = vec!["vertex_id".to_string(), "x".to_string(), "y".to_string()];
        if r.chance(0.4) {
            // extra columns, some named almost like the known ones (they must be ignored all the same)
            let n = r.range(1, 2);
            for _ in 0..n {
                let c = r.pick(&["elevation", "X", "Y", " x", "y ", "Vertex_Id", "name", "VERTEX_ID", "color", "note", "tag"]).to_string();
                if !vertex_cols.contains(&c) {
                    vertex_cols.push(c);
                }
            }
        }
        if r.chance(0.3) {
            r.shuffle(&mut vertex_cols);
        }
        World {
            coords,
            edges,
            speeds,
            grades,
            gz_edges: r.chance(0.3),
            gz_vertices: r.chance(0.3),
            gz_tables: r.chance(0.3),
            gz_misnamed: false,
            text_variant: 0,
            vertex_cols,
            csv_blank_lines: 0,
            gz_members: 0,
            subdir: String::new(),
            x_text: Default::default(),
            explicit_counts: r.chance(0.3),
            traversal: Traversal::Distance { unit: "kilometers".into() },
            algorithm: json!({"type": "a*"}),
            termination: json!({"type": "query_runtime", "limit": "00:10:00", "frequency": 100000}),
            ref_unlimited: false,
            edge_oriented: false,
            weights: vec![],
            input_plugins: vec![],
            summary_plugin: true,
            traversal_plugin: Some(("edge_id".into(), None)),
            parallelism: 2,
            persist: true,
            out: None,
            out2: None,
            headings: None,
            turn_delays: None,
            road_classes: None,
            uuid_plugin: false,
            policies_at_run_level: false,
            per_run_sinks: None,
            out_stems: None,
            termination_partial: false,
        }
    }

    pub fn edges_path(&self) -> String {
        if self.gz_edges && !self.gz_misnamed { format!("/sim/{}edges.csv.gz", self.subdir) } else { format!("/sim/{}edges.csv", self.subdir) }
    }
    pub fn vertices_path(&self) -> String {
        if self.gz_vertices && !self.gz_misnamed { format!("/sim/{}vertices.csv.gz", self.subdir) } else { format!("/sim/{}vertices.csv", self.subdir) }
    }
    fn table_path(&self, stem: &str) -> String {
        if self.gz_tables && !self.gz_misnamed { format!("/sim/{}{}.txt.gz", self.subdir, stem) } else { format!("/sim/{}{}.txt", self.subdir, stem) }
    }
    pub fn table_path_pub(&self, stem: &str) -> String {
        self.table_path(stem)
    }
    pub fn out_path(&self) -> String {
        let stem = self.out_stems.as_ref().map_or("out", |s| s.0.as_str());
        match &self.out {
            Some(OutFile { format: OutFormat::Csv { .. }, .. }) => format!("/sim/{}.csv", stem),
            _ => format!("/sim/{}.json", stem),
        }
    }
    pub fn out2_path(&self) -> String {
        let stem = self.out_stems.as_ref().map_or("out2", |s| s.1.as_str());
        match &self.out2 {
            Some(OutFile { format: OutFormat::Csv { .. }, .. }) => format!("/sim/{}.csv", stem),
            _ => format!("/sim/{}.json", stem),
        }
    }
    pub fn headings_path(&self) -> String {
        if self.gz_tables && !self.gz_misnamed { format!("/sim/{}headings.csv.gz", self.subdir) } else { format!("/sim/{}headings.csv", self.subdir) }
    }
    pub fn headings_csv(&self) -> String {
        let mut s = String::from("arrival_heading,departure_heading\n");
        for (a, d) in self.headings.iter().flatten() {
            match d {
                Some(d) => s.push_str(&format!("{},{}\n", a, d)),
                None => s.push_str(&format!("{},\n", a)),
            }
        }
        s
    }

    pub fn edges_csv(&self) -> String {
        let mut s = String::from("edge_id,src_vertex_id,dst_vertex_id,distance\n");
        if self.csv_blank_lines >= 2 {
            s.push('\n');
        }
        for (i, (a, b, d)) in self.edges.iter().enumerate() {
            s.push_str(&format!("{},{},{},{}\n", i, a, b, fmt_f(*d)));
            if self.csv_blank_lines >= 2 && i == self.edges.len() / 2 {
                s.push('\n');
            }
        }
        if self.csv_blank_lines >= 1 {
            s.push('\n');
        }
        s
    }
    pub fn vertices_csv(&self) -> String {
        let mut s = self.vertex_cols.join(",");
        s.push('\n');
        if self.csv_blank_lines >= 2 {
            s.push('\n');
        }
        for (i, (x, y)) in self.coords.iter().enumerate() {
            let row: Vec<String> = self
                .vertex_cols
                .iter()
                .map(|c| match c.as_str() {
                    "vertex_id" => i.to_string(),
                    "x" => self.x_text.get(&i).cloned().unwrap_or_else(|| fmt_f(*x)),
                    "y" => fmt_f(*y),
                    "name" | "Y" => format!("v{}", i),
                    // free text: values that start with '#', quoted values with a comma or a line break inside
                    "color" => format!("#{:06x}", (i * 2654435761) & 0xffffff),
                    "tag" => if i % 2 == 0 { format!("#{}", i) } else { format!("t{}", i) },
                    "note" => match i % 4 {
                        0 => format!("\"two\nlines {}\"", i),
                        1 => format!("\"with, comma {}\"", i),
                        2 => format!("\"say \"\"{}\"\"\"", i),
                        _ => format!("plain {}", i),
                    },
                    _ => format!("{}", 481000 + i),
                })
                .collect();
            s.push_str(&row.join(","));
            s.push('\n');
            if self.csv_blank_lines >= 2 && i == self.coords.len() / 2 {
                s.push('\n');
            }
        }
        if self.csv_blank_lines >= 1 {
            s.push('\n');
        }
        s
    }
    pub fn geoms_txt(&self) -> String {
        let mut s = String::new();
        for (a, b, _) in &self.edges {
            let (x1, y1) = self.coords[*a];
            let (x2, y2) = self.coords[*b];
            s.push_str(&format!("LINESTRING ({} {}, {} {})\n", fmt_f(x1), fmt_f(y1), fmt_f(x2), fmt_f(y2)));
        }
        s
    }

    /// all simulated input files of this world
    fn shape(&self, text: String) -> Vec<u8> {
        match self.text_variant {
            1 => text.replace('\n', "\r\n").into_bytes(),
            2 => text.strip_suffix('\n').unwrap_or(&text).to_string().into_bytes(),
            _ => text.into_bytes(),
        }
    }

    pub fn files(&self) -> Vec<(String, Vec<u8>)> {
        let mut v = vec![];
        let e = self.shape(self.edges_csv());
        v.push((self.edges_path(), if self.gz_edges { gz_members_of(self, &e) } else { e }));
        let vx = self.shape(self.vertices_csv());
        v.push((self.vertices_path(), if self.gz_vertices { gz_members_of(self, &vx) } else { vx }));
        let tab = |xs: &Vec<f64>| -> Vec<u8> {
            let mut s = String::new();
            for x in xs {
                s.push_str(&fmt_f(*x));
                s.push('\n');
            }
            let b = self.shape(s);
            if self.gz_tables { gz_members_of(self, &b) } else { b }
        };
        v.push((self.table_path("speeds"), tab(&self.speeds)));
        // `grades` are decimal; the file holds them in the configured unit of the grade table
        let grade_factor = match &self.traversal {
            Traversal::Energy { grade_unit, .. } if grade_unit == "percent" => 100.0,
            Traversal::Energy { grade_unit, .. } if grade_unit == "millis" => 1000.0,
            _ => 1.0,
        };
        let grades_in_unit: Vec<f64> = self.grades.iter().map(|g| q9(g * grade_factor)).collect();
        v.push((self.table_path("grades"), tab(&grades_in_unit)));
        let g = self.shape(self.geoms_txt());
        v.push((self.table_path("geoms"), if self.gz_tables { gz_members_of(self, &g) } else { g }));
        if self.headings.is_some() {
            let h = self.shape(self.headings_csv());
            v.push((self.headings_path(), if self.gz_tables { gz_members_of(self, &h) } else { h }));
        }
        if let Some(rc) = &self.road_classes {
            let mut s = String::new();
            for c in rc {
                s.push_str(&format!("{}\n", c));
            }
            let b = self.shape(s);
            v.push((self.table_path("classes"), if self.gz_tables { gz_members_of(self, &b) } else { b }));
        }
        if self.uuid_plugin {
            let mut s = String::new();
            for i in 0..self.nv() {
                s.push_str(&uuid_of(i));
                s.push('\n');
            }
            let b = self.shape(s);
            v.push((self.table_path("uuids"), if self.gz_tables { gz_members_of(self, &b) } else { b }));
        }
        v.push(("/sim/config.json".to_string(), b"{}".to_vec()));
        v
    }

    fn speed_table_cfg(&self, speed_unit: &str, distance_unit: &Option<String>, time_unit: &Option<String>) -> Value {
        let mut t = json!({
            "type": "speed_table",
            "speed_table_input_file": self.table_path("speeds"),
            "speed_unit": speed_unit,
        });
        if let Some(d) = distance_unit {
            t["distance_unit"] = json!(d);
        }
        if let Some(u) = time_unit {
            t["time_unit"] = json!(u);
        }
        t
    }

    /// the per-run configuration of the explored execution (None = no overrides)
    pub fn run_config(&self, run_parallelism: Option<usize>, run_index: usize) -> Option<Value> {
        let mut m = serde_json::Map::new();
        if let Some(p) = run_parallelism {
            m.insert("parallelism".into(), json!(p));
        }
        if let Some(mask) = self.per_run_sinks.as_ref().and_then(|v| v.get(run_index)).copied() {
            // this run's own output policy: the first file, the second, or both
            let mut me = self.clone();
            me.policies_at_run_level = false;
            me.per_run_sinks = None;
            let full = me.config(false);
            let pol = &full["response_output_policy"];
            let chosen = match (pol["type"].as_str(), mask & 3) {
                (Some("file"), m) if m & 1 != 0 => pol.clone(),
                (Some("combined"), 3) => pol.clone(),
                (Some("combined"), 1) => pol["policies"][0].clone(),
                (Some("combined"), 2) => pol["policies"][1].clone(),
                _ => json!({"type": "none"}),
            };
            m.insert("response_persistence_policy".into(), full["response_persistence_policy"].clone());
            m.insert("response_output_policy".into(), chosen);
        } else if self.policies_at_run_level {
            let mut me = self.clone();
            me.policies_at_run_level = false;
            let full = me.config(false);
            m.insert("response_persistence_policy".into(), full["response_persistence_policy"].clone());
            m.insert("response_output_policy".into(), full["response_output_policy"].clone());
        }
        if m.is_empty() { None } else { Some(Value::Object(m)) }
    }

    /// the application configuration as JSON (`reference` = the isolated oracle configuration:
    /// no output file, no prediction cache, parallelism 1)
    pub fn config(&self, reference: bool) -> Value {
        let mut graph = json!({
            "edge_list_input_file": self.edges_path(),
            "vertex_list_input_file": self.vertices_path(),
            "verbose": false,
        });
        if self.explicit_counts {
            graph["n_edges"] = json!(self.ne());
            graph["n_vertices"] = json!(self.nv());
        }
        let traversal = match &self.traversal {
            Traversal::Distance { unit } => json!({"type": "distance", "distance_unit": unit}),
            Traversal::Speed { speed_unit, distance_unit, time_unit } => self.speed_table_cfg(speed_unit, distance_unit, time_unit),
            Traversal::Energy { speed_unit, grade_unit, vehicles, distance_unit, time_unit, time_model_units } => {
                let vs: Vec<Value> = vehicles
                    .iter()
                    .map(|v| {
                        let (m_speed, m_grade) = v.model_units.clone().unwrap_or(("miles_per_hour".into(), "decimal".into()));
                        let (s_hi, g_hi) = interpolation_bounds(&m_speed, &m_grade);
                        let model_type = |_m: &str| -> Value {
                            if v.interpolate {
                                let (sb, gb) = v.interp_bins.unwrap_or((21, 9));
                                json!({"interpolate": {
                                    "underlying_model_type": "smartcore",
                                    "speed_lower_bound": 0, "speed_upper_bound": s_hi, "speed_bins": sb,
                                    "grade_lower_bound": -g_hi, "grade_upper_bound": g_hi, "grade_bins": gb }})
                            } else {
                                json!("smartcore")
                            }
                        };
                        let rec = |name: &str, model: &str, rate_unit: &str| -> Value {
                            let mut m = json!({
                                "name": name,
                                "model_input_file": model,
                                "model_type": model_type(model),
                                "speed_unit": m_speed,
                                "grade_unit": m_grade,
                                "energy_rate_unit": rate_unit,
                            });
                            if let Some(a) = v.adjustment {
                                m["real_world_energy_adjustment"] = json!(a);
                            }
                            if v.ideal_rate_configured {
                                m["ideal_energy_rate"] = json!(if rate_unit.starts_with("gallons") { 0.02 } else { 0.2 });
                            }
                            if let (Some((size, ps, pg)), false) = (v.cache, reference) {
                                m["float_cache_policy"] = json!({"cache_size": size, "key_precisions": [ps, pg]});
                            }
                            m
                        };
                        match v.kind.as_str() {
                            "ice" => {
                                let mut m = rec(&v.name, &v.model, "gallons_gasoline_per_mile");
                                m["type"] = json!("ice");
                                m
                            }
                            "bev" => {
                                let mut m = rec(&v.name, &v.model, "kilowatt_hours_per_mile");
                                m["type"] = json!("bev");
                                m["battery_capacity"] = json!(battery(v).0);
                                m["battery_capacity_unit"] = json!(battery(v).1);
                                m
                            }
                            _ => {
                                json!({
                                    "type": "phev",
                                    "name": v.name,
                                    "battery_capacity": battery(v).0,
                                    "battery_capacity_unit": battery(v).1,
                                    "charge_depleting": rec(&v.name, &v.model, "kilowatt_hours_per_mile"),
                                    "charge_sustaining": rec(&v.name, v.model2.as_deref().unwrap_or(&v.model), "gallons_gasoline_per_mile"),
                                })
                            }
                        }
                    })
                    .collect();
                json!({
                    "type": "energy_model",
                    "time_model": self.speed_table_cfg(speed_unit, &Some(time_model_units.as_ref().map_or("miles".to_string(), |u| u.0.clone())), &Some(time_model_units.as_ref().map_or("minutes".to_string(), |u| u.1.clone()))),
                    "grade_table_input_file": self.table_path("grades"),
                    "grade_table_grade_unit": grade_unit,
                    "time_unit": time_unit.clone().unwrap_or("minutes".into()),
                    "distance_unit": distance_unit.clone().unwrap_or("miles".into()),
                    "vehicles": vs,
                })
            }
        };
        let mut weights = serde_json::Map::new();
        let mut rates = serde_json::Map::new();
        for (k, w) in &self.weights {
            weights.insert(k.clone(), json!(w));
            rates.insert(k.clone(), json!({"type": "raw"}));
        }
        let mut output_plugins = vec![];
        if self.summary_plugin {
            output_plugins.push(json!({"type": "summary"}));
        }
        if let Some((route, tree)) = &self.traversal_plugin {
            let mut p = json!({"type": "traversal", "route": route, "geometry_input_file": self.table_path("geoms")});
            if let Some(t) = tree {
                p["tree"] = json!(t);
            }
            output_plugins.push(p);
        }
        if self.uuid_plugin {
            output_plugins.push(json!({"type": "uuid", "uuid_input_file": self.table_path("uuids")}));
        }
        let file_policy = |o: &OutFile, path: String| -> Value {
            let format = match &o.format {
                OutFormat::Json => json!({"type": "json", "newline_delimited": true}),
                OutFormat::JsonArray => json!({"type": "json", "newline_delimited": false}),
                OutFormat::Csv { mapping, sorted } => {
                    let mut m = serde_json::Map::new();
                    for (k, v) in mapping {
                        m.insert(k.clone(), v.clone());
                    }
                    json!({"type": "csv", "mapping": m, "sorted": sorted})
                }
            };
            let mut p = json!({"type": "file", "filename": path, "format": format});
            if let Some(fr) = o.flush_rate {
                p["file_flush_rate"] = json!(fr);
            }
            p
        };
        let out_policy = match (&self.out, &self.out2, reference) {
            (Some(o), None, false) => file_policy(o, self.out_path()),
            (Some(o), Some(o2), false) => json!({"type": "combined", "policies": [file_policy(o, self.out_path()), file_policy(o2, self.out2_path())]}),
            _ => json!({"type": "none"}),
        };
        let at_run = (self.policies_at_run_level || self.per_run_sinks.is_some()) && !reference;
        let mut cfg = json!({
            "parallelism": if reference { 1 } else { self.parallelism },
            "search_orientation": if self.edge_oriented { "edge" } else { "vertex" },
            "response_persistence_policy": if self.persist || reference || at_run { "persist_response_in_memory" } else { "discard_response_from_memory" },
            "response_output_policy": if at_run { json!({"type": "none"}) } else { out_policy },
            "graph": graph,
            "algorithm": self.algorithm,
            "traversal": traversal,
            "termination": if reference && self.ref_unlimited {
                json!({"type": "query_runtime", "limit": "10:00:00", "frequency": 100000})
            } else if self.termination_partial && self.termination["type"] == json!("query_runtime") {
                // (a user who only sets the limit and the frequency of the default runtime model)
                let mut t = self.termination.clone();
                if let Some(m) = t.as_object_mut() {
                    m.remove("type");
                }
                t
            } else {
                self.termination.clone()
            },
            "plugin": { "input_plugins": self.input_plugins, "output_plugins": output_plugins },
        });
        if let Traversal::Distance { unit } = &self.traversal {
            // the distance model declares no feature of its own: the configuration has to
            cfg["state"] = json!({"distance": {"distance_unit": unit, "initial": 0.0}});
        }
        if !self.weights.is_empty() {
            cfg["cost"] = json!({"cost_aggregation": "sum", "weights": weights, "vehicle_rates": rates});
        }
        if let (Some(_), Some(t)) = (&self.headings, &self.turn_delays) {
            let mut table = serde_json::Map::new();
            for (k, d) in t {
                table.insert(k.clone(), json!(d));
            }
            cfg["access"] = json!({"type": "turn_delay", "edge_heading_input_file": self.headings_path(),
                "turn_delay_model": {"type": "tabular_discrete", "time_unit": "seconds", "table": table}});
        }
        if self.road_classes.is_some() {
            cfg["frontier"] = json!({"type": "road_class", "road_class_input_file": self.table_path("classes")});
        }
        cfg
    }
}
