//! C06 — one response per query, independent of parallelism, order and schedule.

use super::common::*;
use crate::driver::{fnv64, Check, ChildResult, Tier, Violation};
use crate::oracle::*;
use crate::scenario::{execute, Case, ExecOpts, Instrument, Obs};
use crate::sim::Rng;
use crate::world::World;
use routee_compass::app::compass::compass_app::{apply_input_plugins, CompassApp};
use routee_compass::app::compass::compass_app_ops::apply_load_balancing_policy;
use serde_json::{json, Value};
use std::collections::BTreeMap;

pub struct C06;

/// observes the input-plugin stage and the load-balancing policy through their public functions,
/// on the reference application (quiet phase, root thread)
pub struct StageProbe {
    pub batches: Vec<Vec<Value>>,
    pub parallelism: usize,
    pub out: Value,
}

impl Instrument for StageProbe {
    fn after_build(&mut self, app: &mut CompassApp, reference: bool) {
        if !reference {
            return;
        }
        let mut stage = vec![];
        let mut lb = vec![];
        for b in &self.batches {
            let mut per = vec![];
            let mut processed: Vec<Value> = vec![];
            for q in b {
                let r = std::panic::catch_unwind(std::panic::AssertUnwindSafe(|| apply_input_plugins(q, &app.input_plugins)));
                match r {
                    // number of generated queries that reach the search stage (the isolated run returns
                    // their responses first, then the error responses of the rejected ones)
                    Ok((ok, _errors)) => {
                        per.push(json!(ok.len()));
                        processed.extend(ok);
                    }
                    Err(_) => per.push(json!("panic")),
                }
            }
            stage.push(Value::Array(per));
            // load balancing must place every processed query in exactly one of `parallelism` batches
            let r = std::panic::catch_unwind(std::panic::AssertUnwindSafe(|| match apply_load_balancing_policy(&processed, self.parallelism, 1.0) {
                Ok(bins) => {
                    let mut seen = vec![0usize; processed.len()];
                    let mut foreign = 0;
                    for bin in &bins {
                        for q in bin {
                            match processed.iter().position(|p| std::ptr::eq(p, *q)) {
                                Some(i) => seen[i] += 1,
                                None => foreign += 1,
                            }
                        }
                    }
                    json!({"bins": bins.len(), "n": processed.len(), "min_seen": seen.iter().min().copied().unwrap_or(1), "max_seen": seen.iter().max().copied().unwrap_or(1), "foreign": foreign,
                           "sizes": bins.iter().map(|b| b.len()).collect::<Vec<_>>()})
                }
                Err(e) => json!({"error": e.to_string()}),
            }));
            lb.push(r.unwrap_or(json!({"panic": true})));
        }
        self.out = json!({"stage": stage, "lb": lb});
    }
    fn extra(&mut self) -> Value {
        self.out.clone()
    }
}

pub fn gen_batch_case(check: &str, seed: u64, family: &str, tier: Tier, with_file: bool) -> Case {
    if family == "energy" {
        // vehicles with shared prediction caches: the batch must equal the isolated, cache-less runs
        // (half of them with a scheduling point at every allocation and every atomic load of the code under test:
        // the windows of lock-free cache protocols are a few instructions wide)
        let mut c = super::c08::gen_case(seed, if seed % 2 == 0 { "dense" } else { "schedule" }, tier);
        c.check = check.to_string();
        c.family = family.to_string();
        let mut r2 = Rng::new(seed ^ fnv64("two-callers"));
        if c.batches.len() == 1 && c.batches[0].len() >= 2 && r2.chance(0.4) {
            // two caller threads share the application (and its prediction caches): each runs half of the batch
            let all = c.batches.remove(0);
            let k = all.len() / 2;
            c.batches = vec![all[..k].to_vec(), all[k..].to_vec()];
            c.params = json!({"two_callers": true});
        }
        return c;
    }
    let mut r = Rng::new(seed ^ fnv64(check));
    let mut w = World::gen_graph(&mut r, &graph_params(tier));
    gen_traversal(&mut r, &mut w);
    gen_extras(&mut r, &mut w);
    gen_algorithm(&mut r, &mut w, true, false);
    gen_termination(&mut r, &mut w);
    let pc = gen_plugins(&mut r, &mut w);
    w.parallelism = r.range(1, 16) as usize;
    w.persist = r.chance(0.6);
    if with_file || !w.persist || r.chance(0.2) {
        w.out = Some(gen_out_file(&mut r, &w));
    }
    w.policies_at_run_level = r.chance(0.2);
    // small and large responses: the route (and sometimes the whole search tree) in every output format
    if r.chance(0.5) {
        let route = r.pick(&["edge_id", "json", "wkt", "geo_json", "wkb"]).to_string();
        let tree = if r.chance(0.3) { Some(r.pick(&["edge_id", "json", "wkt", "geo_json"]).to_string()) } else { None };
        w.traversal_plugin = Some((route, tree));
    }
    if check == "C19" && w.out.is_some() && r.chance(0.2) {
        // a combined policy: every response goes to two files (any mix of formats)
        let mut o2 = gen_out_file(&mut r, &w);
        o2.preexisting = false;
        // a CSV sink records its unmappable columns in the response before the next sink sees it: a later
        // CSV column that reads "error" would then hold an object (with commas) that no reference predicts
        if let (Some(crate::world::OutFile { format: crate::world::OutFormat::Csv { .. }, .. }), crate::world::OutFormat::Csv { mapping, .. }) = (&w.out, &mut o2.format) {
            mapping.retain(|(k, _)| k != "err");
            if mapping.is_empty() {
                o2.format = crate::world::OutFormat::Json;
            }
        }
        w.out2 = Some(o2);
    }
    let _ = &mut w;
    if check == "C06" {
        // C06 reads responses back from the file when they are discarded from memory: newline-delimited JSON only
        if let Some(o) = &mut w.out {
            o.format = crate::world::OutFormat::Json;
            o.preexisting = false;
        }
    }
    let mut nq = match tier {
        Tier::Quick => r.range(1, 24),
        Tier::Thorough => r.range(1, 60),
    } as usize;
    if r.chance(0.006) {
        // a size knob: hundreds of queries in one batch (chunk arithmetic far from the small cases)
        nq = r.range(200, 700) as usize;
    }
    let n_batches = match r.below(20) {
        0..=13 => 1,
        14..=17 => 2,
        _ => 3,
    };
    let mut batches: Vec<Vec<Value>> = vec![vec![]; n_batches];
    for qid in 0..nq {
        let (q, _) = gen_query(&mut r, &w, &pc, qid, true);
        let b = r.below(n_batches as u64) as usize;
        if r.chance(0.04) && q.is_object() {
            // a batch member that is itself a list of queries (a nested batch: every element is answered)
            let (q2, _) = gen_query(&mut r, &w, &pc, 1000 + qid, true);
            batches[b].push(if q2.is_object() { json!([q, q2]) } else { json!([q]) });
        } else {
            batches[b].push(q);
        }
    }
    batches.retain(|b| !b.is_empty());
    // some users estimate the weight of some of their queries themselves (no load-balancer plugin): a batch that
    // mixes queries with and without an estimate (round 6; a stream of its own, the other knobs stay as they were)
    let mut r3 = Rng::new(seed ^ fnv64("weight-estimates"));
    if pc.lb.is_none() && r3.chance(0.25) {
        for b in batches.iter_mut() {
            for q in b.iter_mut() {
                if q.is_object() && r3.chance(0.5) {
                    q["query_weight_estimate"] = json!(many_digits(&mut r3, 0.1, 50.0));
                }
            }
        }
    }
    if batches.len() >= 2 && w.out.is_some() && r.chance(0.4) {
        // every run() call names its own output policy: the first file, the second, both or none
        let top = if w.out2.is_some() { 4 } else { 2 };
        w.per_run_sinks = Some((0..batches.len()).map(|_| r.below(top) as u8).collect());
        w.policies_at_run_level = false;
    }
    let mut two_callers = w.out.is_none() && batches.len() == 2 && r.chance(0.5);
    // round 8 (streams of their own, the other knobs stay as they were) ---------------------------------------
    // the two response files may carry other names: the second may sort before the first, and files of different
    // formats may share one stem (job.csv / job.json)
    let mut r4 = Rng::new(seed ^ fnv64("out-names"));
    if w.out2.is_some() && r4.chance(0.6) {
        let same_format = std::mem::discriminant(&w.out.as_ref().unwrap().format) == std::mem::discriminant(&w.out2.as_ref().unwrap().format);
        w.out_stems = Some(match r4.below(if same_format { 2 } else { 4 }) {
            0 => ("out_summary".to_string(), "out_archive".to_string()),
            1 => ("out9".to_string(), "out1".to_string()),
            _ => ("out_job".to_string(), "out_job".to_string()),
        });
        // two caller threads, each writing the responses of its batch to a file of its own
        if batches.len() == 2 && w.out.as_ref().map_or(false, |o| !o.preexisting) && r4.chance(0.6) {
            w.per_run_sinks = Some(if r4.chance(0.5) { vec![1, 2] } else { vec![2, 1] });
            w.policies_at_run_level = false;
            two_callers = true;
        }
    }
    // a user submits some queries again: in a later run() call on the same application, or twice in one batch
    let mut r5 = Rng::new(seed ^ fnv64("resubmitted"));
    if r5.chance(0.2) {
        for bi in 0..batches.len() {
            let src = if bi > 0 && r5.chance(0.8) { r5.below(bi as u64) as usize } else { bi };
            for _ in 0..r5.range(1, 3) {
                if !batches[src].is_empty() {
                    let q = batches[src][r5.below(batches[src].len() as u64) as usize].clone();
                    batches[bi].push(q);
                }
            }
        }
    }
    let mut simcfg = gen_simcfg(&mut r);
    if family == "faults" {
        simcfg.faults = crate::sim::F_SHORT_WRITE | crate::sim::F_EINTR_WRITE;
        simcfg.io_fault_rate = *r.pick(&[0.02, 0.1, 0.3]);
        simcfg.fault_paths = vec!["/sim/out".into()];
    }
    let n_runs_made = batches.len();
    Case {
        check: check.to_string(),
        seed,
        family: family.to_string(),
        workers: r.range(1, 8) as usize,
        run_parallelism: if r.chance(0.3) { Some(r.range(1, 16) as usize) } else { None },
        world: w,
        batches,
        simcfg,
        recorded: None,
        params: {
            // the language-binding interface (built from a TOML text, queries and responses as JSON strings) in one
            // case of seven - a stream of its own, the other knobs stay as they were
            let via_bindings = Rng::new(seed ^ fnv64("bindings")).chance(0.15);
            // round 9: every run() call of a case may ask for a parallelism of its own (a first call with few
            // workers, a later one with many, or the other way round)
            let mut r9 = Rng::new(seed ^ fnv64("parallelism-per-run"));
            let per_run: Option<Vec<Value>> = if n_runs_made >= 2 && r9.chance(0.35) { Some((0..n_runs_made).map(|_| if r9.chance(0.25) { Value::Null } else { json!(r9.range(1, 16)) }).collect()) } else { None };
            match (two_callers, via_bindings || per_run.is_some()) {
                (false, false) => Value::Null,
                (t, _) => {
                    let b = via_bindings;
                    let mut m = serde_json::Map::new();
                    if let Some(p) = per_run {
                        m.insert("run_parallelism_per_run".into(), Value::Array(p));
                    }
                    if t {
                        m.insert("two_callers".into(), json!(true));
                    }
                    if b {
                        m.insert("via_bindings".into(), json!(true));
                    }
                    Value::Object(m)
                }
            }
        },
    }
}

/// responses of the search stage + input-stage error responses, for one `run` call
pub struct RunView {
    pub all: Vec<Value>,
}

pub fn parse_json_lines(data: &[u8]) -> Result<Vec<Value>, String> {
    let text = String::from_utf8(data.to_vec()).map_err(|e| format!("output file is not UTF-8: {}", e))?;
    let mut out = vec![];
    if !text.is_empty() && !text.ends_with('\n') {
        return Err("output file does not end with a newline (truncated record)".into());
    }
    for (i, line) in text.lines().enumerate() {
        match serde_json::from_str::<Value>(line) {
            Ok(v) => out.push(v),
            Err(e) => return Err(format!("line {} is not a JSON record: {} :: {:?}", i + 1, e, line.chars().take(120).collect::<String>())),
        }
    }
    Ok(out)
}

pub fn judge(case: &Case, obs: &Obs) -> (Vec<Violation>, BTreeMap<String, u64>, bool) {
    let mut v: Vec<Violation> = vec![];
    let mut reach: BTreeMap<String, u64> = BTreeMap::new();
    let mut bump = |k: &str, n: u64| *reach.entry(k.to_string()).or_insert(0) += n;
    if case.params.get("via_bindings").and_then(|x| x.as_bool()).unwrap_or(false) && case.params.get("cli").map_or(true, |c| !c.is_object()) {
        bump("cases_through_the_binding_interface", 1);
    }
    let mut nontrivial = false;
    if let Some(e) = &obs.build_error {
        v.push(Violation { class: "build-failed".into(), detail: format!("explored application failed to build on a valid world: {}", e) });
        return (v, reach, false);
    }
    if obs.ref_build_error.is_some() {
        v.push(Violation { class: "build-failed".into(), detail: format!("reference application failed to build: {:?}", obs.ref_build_error) });
        return (v, reach, false);
    }
    for p in &obs.panics {
        v.push(Violation { class: format!("panic@{}", p.location), detail: format!("panic in explored execution: {} at {} (thread {})", p.message, p.location, p.thread) });
    }
    let stage = obs.extra.get("stage").cloned().unwrap_or(Value::Null);
    let lb = obs.extra.get("lb").cloned().unwrap_or(Value::Null);
    // (e) load balancing is a partition into `parallelism` bins
    if let Some(lbs) = lb.as_array() {
        for (bi, l) in lbs.iter().enumerate() {
            if l.get("panic").is_some() {
                v.push(Violation { class: "lb-panic".into(), detail: format!("load balancing panicked on batch {}", bi) });
            } else if l.get("error").is_none() {
                let n = l["n"].as_u64().unwrap_or(0);
                if n > 0 {
                    bump("lb_checked", 1);
                    let p = case.run_parallelism.unwrap_or(case.world.parallelism) as u64;
                    if l["min_seen"] != json!(1) || l["max_seen"] != json!(1) || l["foreign"] != json!(0) {
                        v.push(Violation { class: "lb-not-partition".into(), detail: format!("load balancing does not place every query in exactly one batch: {}", l) });
                    }
                    if l["bins"].as_u64() != Some(p) {
                        v.push(Violation { class: "lb-bin-count".into(), detail: format!("load balancing produced {} batches for parallelism {}", l["bins"], p) });
                    }
                }
            } else {
                bump("lb_error", 1);
            }
        }
    }
    // family noisy-neighbour: the first caller's file meets a hard fault (its run may fail, its file may hold a
    // cut record); the second caller is judged as strictly as ever
    let noisy = case.family == "noisy-neighbour";
    let hard_fired: u64 = obs.stats.faults.iter().filter(|(k, _)| *k == "eio_write" || k.starts_with("enospc") || *k == "zero_write").map(|(_, n)| *n).sum();
    let mut file_records: Option<Vec<Value>> = None;
    if let (Some(data), false) = (&obs.out_file, noisy) {
        match parse_json_lines(data) {
            Ok(recs) => file_records = Some(recs),
            Err(e) => v.push(Violation { class: "file-corrupt".into(), detail: e }),
        }
    }
    let mut file_cursor_expected: Vec<String> = vec![];
    for (bi, batch) in case.batches.iter().enumerate() {
        let refs = match obs.reference.get(bi) {
            Some(r) => r,
            None => continue,
        };
        if refs.iter().any(|r| r.is_none()) {
            bump("reference_failed", 1);
            continue; // a query that cannot even run alone is C12's business
        }
        let lb_err = lb.get(bi).map_or(false, |l| l.get("error").is_some());
        let run = match obs.runs.get(bi) {
            Some(Some(Ok(r))) => r.clone(),
            Some(Some(Err(_))) if noisy && bi == 0 && hard_fired > 0 => {
                bump("neighbour_run_failed_on_its_file", 1);
                continue;
            }
            Some(Some(Err(e))) => {
                if lb_err {
                    bump("whole_run_error_from_lb", 1);
                }
                v.push(Violation { class: "run-error".into(), detail: format!("run() failed as a whole although every query can be answered alone: {}", e) });
                continue;
            }
            Some(None) => continue, // panic already reported
            None => continue,
        };
        // expected: the isolated responses of every query
        let mut expected: Vec<Value> = vec![];
        let mut expected_search_stage: Vec<Value> = vec![];
        for (qi, _q) in batch.iter().enumerate() {
            let rs = refs[qi].clone().unwrap();
            let n_ok = stage.get(bi).and_then(|s| s.get(qi)).and_then(|s| s.as_u64()).unwrap_or(0) as usize;
            expected_search_stage.extend(rs.iter().take(n_ok).cloned());
            expected.extend(rs);
        }
        // actual: returned responses (+ file records when responses are not kept in memory)
        let actual = run.clone();
        if !case.world.persist {
            if let Some(recs) = &file_records {
                // records of this run: we cannot attribute lines to runs by position under discard, so compare at the end
                let _ = recs;
            }
        }
        // grid-search model: one response for every query *after* expansion, whatever happens to an
        // individual generated query in a later plugin or in the search
        let grid_first = case.world.input_plugins.first().map_or(false, |p| p["type"] == json!("grid_search"));
        if grid_first {
            for (qi, q) in batch.iter().enumerate() {
                let well_formed = q.get("grid_search").and_then(|g| g.as_object()).map_or(false, |g| !g.is_empty() && g.values().all(|a| a.as_array().map_or(false, |a| !a.is_empty())));
                if !well_formed || !q.is_object() {
                    continue;
                }
                let want = expand_grid(q).len();
                let got = refs[qi].as_ref().unwrap().len();
                bump("grid_queries", 1);
                if want != got {
                    v.push(Violation { class: "grid-count".into(), detail: format!("query {} is answered by {} responses, its Cartesian product has {} (plugins {})", q, got, want, serde_json::to_string(&case.world.input_plugins).unwrap()) });
                }
            }
        }
        if !case.world.persist {
            // search-stage responses live in the file; the returned vector holds only input-stage errors
            // (a run whose own output policy names no file discards its search responses altogether)
            let written = case.world.per_run_sinks.as_ref().and_then(|m| m.get(bi)).map_or(true, |m| m & 1 != 0);
            if written {
                file_cursor_expected.extend(expected_search_stage.iter().map(|r| canon(&strip_volatile(r))));
            }
            let returned_expected: Vec<Value> = {
                let mut x = vec![];
                for (qi, _q) in batch.iter().enumerate() {
                    let n_ok = stage.get(bi).and_then(|s| s.get(qi)).and_then(|s| s.as_u64()).unwrap_or(0) as usize;
                    x.extend(refs[qi].clone().unwrap().into_iter().skip(n_ok));
                }
                x
            };
            expected = returned_expected;
        }
        nontrivial |= expected.len() + expected_search_stage.len() > 1;
        if noisy && bi == 1 {
            bump("callers_judged_beside_a_failing_neighbour", 1);
        }
        bump("queries", batch.len() as u64);
        bump("responses", actual.len() as u64);
        for r in &actual {
            if r.get("error").is_some() {
                bump("error_responses", 1);
            }
        }
        for (c, d) in compare_by_request(&expected, &actual, 1e-9) {
            v.push(Violation { class: c, detail: d });
        }
    }
    if !case.world.persist {
        if let Some(recs) = &file_records {
            // the file is the only place search-stage responses go: compare as multisets on the essence
            let want = multiset(file_cursor_expected.iter().map(|s| {
                let v: Value = serde_json::from_str(s).unwrap_or(Value::Null);
                let e = essence(&v);
                format!("{}|{:?}|{}", e.request, e.error, e.has_route)
            }));
            let got = multiset(recs.iter().map(|r| {
                let e = essence(r);
                format!("{}|{:?}|{}", e.request, e.error, e.has_route)
            }));
            let complete = obs.runs.iter().all(|r| matches!(r, Some(Ok(_)))) && obs.reference.iter().all(|b| b.iter().all(|r| r.is_some()));
            if complete && want != got {
                let missing: Vec<&String> = want.iter().filter(|(k, n)| got.get(*k).copied().unwrap_or(0) < **n).map(|(k, _)| k).collect();
                let extra: Vec<&String> = got.iter().filter(|(k, n)| want.get(*k).copied().unwrap_or(0) < **n).map(|(k, _)| k).collect();
                v.push(Violation { class: "discard-file-mismatch".into(), detail: format!("with responses discarded from memory the file must hold every search response; missing {:?} extra {:?}", missing.iter().take(3).collect::<Vec<_>>(), extra.iter().take(3).collect::<Vec<_>>()) });
            }
        }
    }
    (v, reach, nontrivial)
}

impl Check for C06 {
    fn id(&self) -> &'static str {
        "C06"
    }
    fn families(&self, _tier: Tier) -> Vec<&'static str> {
        vec!["schedule", "energy", "faults", "schedule", "energy", "schedule", "faults", "cli", "schedule", "sink-faults", "noisy-neighbour"]
    }
    fn default_runs(&self, tier: Tier) -> u64 {
        match tier {
            Tier::Quick => 8800,
            Tier::Thorough => 150000,
        }
    }
    fn gen(&self, seed: u64, family: &str, tier: Tier) -> Case {
        if family == "sink-faults" {
            // one response for every query also means: a response that was written (its run() returned Ok) stays
            // written, whatever happens to the file in a later run (a write that fails once, a disk that fills up)
            use crate::driver::Check;
            let mut c = super::c19::C19.gen(seed ^ 0x51C06, "hard-faults", tier);
            c.check = "C06".into();
            c.family = "sink-faults".into();
            return c;
        }
        if family == "cli" {
            // "one response for every query" through the command-line runner: the query file is read in chunks
            // (rows that are no query at all, a read that fails once), one run() per chunk, responses in the file
            use crate::driver::Check;
            let mut c = super::c19::C19.gen(seed ^ 0xC06, if seed % 2 == 0 { "cli-hard" } else { "cli" }, tier);
            c.check = "C06".into();
            c.family = "cli".into();
            return c;
        }
        if family == "noisy-neighbour" {
            // two caller threads share the application. The first writes its responses to a file whose disk fills
            // up (or breaks) and stays that way - its run() may fail; the second writes no file and must get every
            // one of its responses, each equal to the query run alone: "a query that fails ... without changing
            // any other response" across callers (round 6)
            let mut c = gen_batch_case("C06", seed, "schedule", tier, true);
            c.family = family.to_string();
            let mut r = Rng::new(seed ^ fnv64("noisy-neighbour"));
            let mut all: Vec<Value> = c.batches.iter().flatten().cloned().collect();
            if all.len() < 2 {
                let q = all[0].clone();
                all.push(q);
            }
            let k = r.range(1, all.len() as u64 - 1) as usize;
            c.batches = vec![all[..k].to_vec(), all[k..].to_vec()];
            c.world.persist = true;
            c.world.out2 = None;
            c.world.policies_at_run_level = false;
            c.world.per_run_sinks = Some(vec![1, 0]);
            c.simcfg.faults = crate::sim::F_SHORT_WRITE | *r.pick(&[crate::sim::F_ENOSPC_WRITE, crate::sim::F_EIO_WRITE, crate::sim::F_ZERO_WRITE]);
            c.simcfg.io_fault_rate = *r.pick(&[0.2, 0.5, 0.9]);
            c.simcfg.max_hard_faults = 1;
            c.simcfg.fault_paths = vec!["/sim/out".into()];
            c.params = json!({"two_callers": true});
            return c;
        }
        gen_batch_case("C06", seed, family, tier, false)
    }
    fn run(&self, case: &Case, fatal_fd: i32) -> ChildResult {
        let probe = StageProbe { batches: case.batches.clone(), parallelism: case.run_parallelism.unwrap_or(case.world.parallelism), out: Value::Null };
        let obs = execute(case, ExecOpts { reference: true, trace: false, log_clock: false, explore_build: false }, Box::new(probe), fatal_fd);
        let (violations, mut reach, nontrivial) = if case.family == "cli" || case.family == "sink-faults" { super::c19::judge(case, &obs) } else { judge(case, &obs) };
        reach.insert("workers_gt1".into(), (case.workers > 1) as u64);
        reach.insert("two_caller_threads".into(), case.params.get("two_callers").and_then(|x| x.as_bool()).unwrap_or(false) as u64);
        world_reach(&case.world, &mut reach);
        reach.insert("preemptions".into(), obs.stats.preemptions);
        let sig = fnv64(&format!("{}|{}", serde_json::to_string(&case.batches).unwrap(), obs.stats.sched_hash));
        ChildResult {
            violations,
            nontrivial,
            signature: sig,
            reach,
            sample: json!({"seed": case.seed, "family": case.family, "workers": case.workers, "parallelism": case.world.parallelism, "run_parallelism": case.run_parallelism,
                "vertices": case.world.nv(), "edges": case.world.ne(), "batch_sizes": case.batches.iter().map(|b| b.len()).collect::<Vec<_>>(),
                "first_query": case.batches.get(0).and_then(|b| b.get(0)), "plugins": case.world.input_plugins, "sched": format!("{:?}", case.simcfg.sched),
                "switches": obs.stats.switches, "steps": obs.stats.steps,
                "responses_head": if std::env::var_os("SIM_DUMP").is_some() { json!(obs.runs) } else { Value::Null }}),
            stats: Some(obs.stats.clone()),
            recorded: Some(obs.recorded.clone()),
            harness_error: None,
        }
    }
    fn rule(&self) -> String {
        "each evaluation = one generated world (3-40 vertices; distance, speed-table or energy traversal; a*/dijkstra/k-shortest-paths; termination model; input plugins grid_search / load_balancer / inject / vertex_rtree / edge_rtree in a generated order; optionally a turn-delay access model, a road-class frontier model, the uuid plugin, any traversal output format incl. trees) + batch of 1-60 queries (valid, same o/d, no destination, out-of-range, missing / ill-typed origin, per-query cost parameters, grid-search, far coordinate, allowed road classes, free-text labels, values that are not JSON objects) split over 1-3 run() calls, executed on a simulated rayon pool of W in 1..8 workers with parallelism P in 1..16 (configuration and per-run override; persistence / output policies in the configuration, per run, or different for every run) under a seeded schedule (random / PCT / PCT over synchronisation events / cooperative; preemption at futex, yield, clock, sleep, file I/O, every n-th allocation and - deep build - atomic writes and loads of the code under test), compared with every query run alone. Families: schedule, faults (short writes / EINTR on the response file), energy (shared prediction caches), cli (the command-line runner: chunked query file with rows that are no query and a read that fails once; judged through the response file), noisy-neighbour (round 6: two caller threads, the first into a response file whose disk fills up or breaks and stays so - its run() may fail - the second without a file: every response of the second must be there and equal the query run alone). Round 6 knobs: two caller threads sharing the application in the plain families too, batches that mix queries with and without a user-supplied weight estimate, idle time (1 s / 1 h / 1 day) between run() calls, clock reads of up to 10 ms, spurious futex wake-ups, wall-clock steps backwards, a logger at info / debug / trace level. non-trivial = more than one response expected; distinct = distinct (batch, schedule-hash) pairs Rounds 8-9: one case in seven goes through the language-binding interface (application built from a TOML text, batches handed over and returned as JSON strings by CompassAppBindings::run_queries); in one case in five some queries are submitted again - in a later run() call or twice in a batch; every run() call of a case may ask for a parallelism of its own.".into()
    }
    fn assumptions(&self) -> Vec<String> {
        vec![
            "oracle is sequential isolation through the same real code: a search bug that is wrong the same way alone and in a batch is not detected here".into(),
            "preemption only at intercepted points (futex, sched_yield, clock, simulated file I/O, allocation); races between plain memory operations without such a point are invisible".into(),
            "responses are matched by their request; costs and state compared with relative tolerance 1e-9".into(),
        ]
    }
    fn judge_abnormal(&self, _case: &Case, what: &str) -> Option<Violation> {
        if what.contains("deadlock") {
            Some(Violation { class: "deadlock".into(), detail: what.into() })
        } else if what.contains("budget") {
            Some(Violation { class: "unbounded".into(), detail: what.into() })
        } else {
            Some(Violation { class: format!("abort:{}", what), detail: what.into() })
        }
    }
}
