//! generator pieces shared by the batch-oriented checks (C06, C19, C12, C10)

use crate::driver::Tier;
use crate::sim::{Rng, SchedMode, SimCfg};
use crate::world::{GraphParams, OutFile, OutFormat, Traversal, World};
use serde_json::{json, Value};

/// a float with at most 9 decimals: many digits (exact cost ties are improbable) yet few enough that
/// every JSON text round trip (replay file, query echo, output file) reproduces it bit for bit
pub fn many_digits(r: &mut Rng, lo: f64, hi: f64) -> f64 {
    crate::world::q9(lo + r.f64() * (hi - lo))
}

pub fn gen_simcfg(r: &mut Rng) -> SimCfg {
    let mut c = SimCfg::default();
    c.sched = match r.below(10) {
        0..=3 => SchedMode::Random,
        4..=5 => SchedMode::Pct,
        6..=8 => SchedMode::PctSync,
        _ => SchedMode::Cooperative,
    };
    c.p_stay = *r.pick(&[0.5, 0.8, 0.9, 0.97]);
    c.pct_depth = r.range(1, 5) as u32;
    c.pct_horizon = *r.pick(&[200u64, 1000, 5000, 20000]);
    c.alloc_every = *r.pick(&[0u64, 1, 3, 8, 32, 128]);
    c.atomic_every = *r.pick(&[0u64, 0, 1, 1, 2, 5, 17]);
    c.atomic_load_every = *r.pick(&[0u64, 0, 0, 1, 1, 3, 11]);
    c.spurious_wake_rate = *r.pick(&[0.0, 0.0, 0.0, 0.02, 0.1, 0.3]);
    // the wall clock (what chrono reads: time stamps, reported durations) may be set back while a batch runs
    c.wall_step_rate = *r.pick(&[0.0, 0.0, 0.0, 0.01, 0.1, 0.5]);
    c.wall_step_ns = *r.pick(&[1_000u64, 1_000_000_000, 3_600_000_000_000, 86_400_000_000_000]) + r.below(1000);
    // between two run() calls on one application nothing, an hour or a day passes; a clock read costs up to 10 ms
    c.idle_between_runs_ns = *r.pick(&[0u64, 0, 1_000_000_000, 3_600_000_000_000, 86_400_000_000_000]);
    c.clock_tick_ns = *r.pick(&[1_000u64, 1_000, 1_000, 1_000_000, 10_000_000]);
    if c.sched == SchedMode::PctSync {
        // synchronisation events are the whole point of this policy
        c.atomic_every = 1;
        c.pct_horizon = *r.pick(&[8u64, 20, 60, 200]);
        c.pct_depth = r.range(1, 8) as u32;
    }
    // experimentation aid (never set by the registered commands)
    match std::env::var("SIM_FORCE_SCHED").ok().as_deref() {
        Some("pct") => c.sched = SchedMode::Pct,
        Some("pctsync") => {
            c.sched = SchedMode::PctSync;
            c.atomic_every = 1;
            c.pct_horizon = 30;
            c.pct_depth = 6;
        }
        Some("random") => c.sched = SchedMode::Random,
        _ => {}
    }
    if let Some(a) = std::env::var("SIM_FORCE_ALLOC").ok().and_then(|a| a.parse().ok()) {
        c.alloc_every = a;
    }
    c
}

/// traversal model + cost weights (many-digit positive weights: exact cost ties are improbable)
pub fn gen_traversal(r: &mut Rng, w: &mut World) {
    if r.chance(0.5) {
        w.traversal = Traversal::Distance { unit: r.pick(&["kilometers", "miles", "meters"]).to_string() };
        w.weights = vec![("distance".into(), many_digits(r, 0.5, 2.0))];
    } else {
        w.traversal = Traversal::Speed {
            speed_unit: r.pick(&["kilometers_per_hour", "miles_per_hour", "meters_per_second"]).to_string(),
            distance_unit: if r.chance(0.5) { Some(r.pick(&["kilometers", "miles", "meters"]).to_string()) } else { None },
            time_unit: if r.chance(0.5) { Some(r.pick(&["hours", "minutes", "seconds"]).to_string()) } else { None },
        };
        w.weights = vec![("distance".into(), many_digits(r, 0.1, 2.0)), ("time".into(), many_digits(r, 0.1, 2.0))];
    }
}

pub fn gen_algorithm(r: &mut Rng, w: &mut World, allow_ksp: bool, allow_yens_k2: bool) {
    let base = |r: &mut Rng| -> Value {
        match r.below(3) {
            0 => json!({"type": "dijkstra"}),
            1 => json!({"type": "a*"}),
            _ => json!({"type": "a*", "weight_factor": many_digits(r, 0.0, 1.0)}),
        }
    };
    w.algorithm = if allow_ksp && r.chance(0.25) {
        // (Yen's algorithm with k >= 2 used to panic or loop forever - fixed in /repo, see known_findings.json)
        let yens = r.chance(0.3);
        let _ = allow_yens_k2;
        let k = r.range(1, 3);
        let mut a = json!({"type": if yens { "yens" } else { "ksp_single_via" }, "k": k, "underlying": base(r)});
        if r.chance(0.4) {
            a["similarity"] = json!({"type": "edge_id_cosine_similarity", "threshold": many_digits(r, 0.3, 0.95)});
        }
        a
    } else {
        base(r)
    };
}

pub fn gen_termination(r: &mut Rng, w: &mut World) {
    w.termination = match r.below(20) {
        0..=11 => json!({"type": "query_runtime", "limit": "00:10:00", "frequency": r.pick(&[1u64, 7, 100000])}),
        12..=15 => json!({"type": "iterations", "limit": r.below(30)}),
        16..=17 => json!({"type": "solution_size", "limit": r.below(30)}),
        _ => json!({"type": "combined", "models": [
            {"type": "iterations", "limit": r.below(40)},
            {"type": "solution_size", "limit": r.below(40)},
            {"type": "query_runtime", "limit": "00:10:00", "frequency": r.range(1, 5)}]}),
    };
}

pub struct PluginChoice {
    /// swarm knob: most queries of the batch carry their own cost parameters (weights, rates, aggregation,
    /// initial state), so per-query state that leaks between concurrent queries has something to leak
    pub override_heavy: bool,
    pub grid: bool,
    pub lb: Option<&'static str>, // "custom" | "haversine"
    pub inject: bool,
    pub rtree: bool,
    /// the matching plugin is edge_rtree (the search is then edge oriented) instead of vertex_rtree
    pub edge_rtree: bool,
}

pub const TURNS: [&str; 8] = ["no_turn", "slight_right", "slight_left", "right", "left", "sharp_right", "sharp_left", "u_turn"];

/// optional models around the search: turn-delay access model (needs a time feature), road-class
/// frontier model, uuid output plugin. Each adds a per-edge / per-vertex table file and a service
/// shared by all workers.
pub fn gen_extras(r: &mut Rng, w: &mut World) {
    let has_time = !matches!(w.traversal, Traversal::Distance { .. });
    if has_time && r.chance(0.3) {
        w.headings = Some((0..w.ne()).map(|_| (r.below(360) as i16, if r.chance(0.7) { Some(r.below(360) as i16) } else { None })).collect());
        w.turn_delays = Some(TURNS.iter().map(|t| (t.to_string(), if *t == "no_turn" && r.chance(0.5) { 0.0 } else { many_digits(r, 0.0, 30.0) })).collect());
    }
    if r.chance(0.3) {
        w.road_classes = Some((0..w.ne()).map(|_| r.below(4) as u8).collect());
    }
    if r.chance(0.2) {
        w.uuid_plugin = true;
    }
}

pub fn gen_plugins(r: &mut Rng, w: &mut World) -> PluginChoice {
    let pc = PluginChoice {
        override_heavy: r.chance(0.3) || std::env::var_os("SIM_FORCE_HEAVY").is_some(),
        grid: r.chance(0.5),
        lb: if r.chance(0.4) { Some(if r.chance(0.5) { "custom" } else { "haversine" }) } else { None },
        inject: r.chance(0.2),
        rtree: r.chance(0.3),
        edge_rtree: false,
    };
    let mut pc = pc;
    pc.edge_rtree = pc.rtree && r.chance(0.3);
    let mut ps = vec![];
    if pc.grid {
        ps.push(json!({"type": "grid_search"}));
    }
    if pc.inject {
        ps.push(json!({"type": "inject", "key": "injected", "value": "{\"by\":\"config\"}", "format": "json"}));
    }
    if pc.rtree {
        let mut p = if pc.edge_rtree {
            w.edge_oriented = true;
            let mut p = json!({"type": "edge_rtree", "geometry_input_file": w.table_path_pub("geoms")});
            if w.road_classes.is_some() && r.chance(0.7) {
                p["road_class_input_file"] = json!(w.table_path_pub("classes"));
            }
            p
        } else {
            json!({"type": "vertex_rtree", "vertices_input_file": w.vertices_path()})
        };
        if r.chance(0.5) {
            p["distance_tolerance"] = json!(many_digits(r, 0.5, 5.0));
            p["distance_unit"] = json!("kilometers");
        }
        ps.push(p);
    }
    match pc.lb {
        Some("custom") => ps.push(json!({"type": "load_balancer", "weight_heuristic": {"type": "custom", "custom_weight_type": {"type": "numeric", "column_name": "w"}}})),
        Some(_) => ps.push(json!({"type": "load_balancer", "weight_heuristic": {"type": "haversine"}})),
        None => {}
    }
    // plugin order is part of the configuration space
    if r.chance(0.3) {
        r.shuffle(&mut ps);
    }
    w.input_plugins = ps;
    pc
}

#[derive(Clone, Copy, PartialEq)]
pub enum QKind {
    Valid,
    SameOD,
    NoDest,
    OutOfRange,
    MissingOrigin,
    WrongType,
    WeightOverride,
    Grid,
    FarCoord,
    /// valid JSON that is not an object (a malformed query: it must become an error response of its own)
    NonObject,
}

/// one query. `_qid` makes every original query distinguishable.
pub fn gen_query(r: &mut Rng, w: &World, pc: &PluginChoice, qid: usize, failing_ok: bool) -> (Value, QKind) {
    let nv = w.nv() as u64;
    let o = r.below(nv) as usize;
    let mut d = r.below(nv) as usize;
    if d == o {
        d = (o + 1) % nv as usize;
    }
    let kind = {
        let roll = r.below(100);
        if pc.override_heavy && r.chance(0.75) {
            QKind::WeightOverride
        } else if !failing_ok {
            if roll < 70 { QKind::Valid } else if roll < 80 { QKind::NoDest } else if roll < 90 { QKind::WeightOverride } else { QKind::Grid }
        } else if roll < 45 {
            QKind::Valid
        } else if roll < 50 {
            QKind::SameOD
        } else if roll < 58 {
            QKind::NoDest
        } else if roll < 64 {
            QKind::OutOfRange
        } else if roll < 69 {
            QKind::MissingOrigin
        } else if roll < 74 {
            QKind::WrongType
        } else if roll < 82 {
            QKind::WeightOverride
        } else if roll < 93 {
            QKind::Grid
        } else if roll < 96 {
            QKind::NonObject
        } else {
            QKind::FarCoord
        }
    };
    if kind == QKind::NonObject {
        let v = match r.below(6) {
            0 => json!(5),
            1 => json!("text"),
            2 => Value::Null,
            3 => json!(true),
            4 => json!(1.5),
            _ => json!(format!("query-{}", qid)),
        };
        return (v, kind);
    }
    let mut q = json!({"_qid": qid});
    let put_od = |q: &mut Value, o: usize, d: Option<usize>| {
        if pc.rtree || pc.lb == Some("haversine") {
            q["origin_x"] = json!(w.coords[o].0);
            q["origin_y"] = json!(w.coords[o].1);
            if let Some(d) = d {
                q["destination_x"] = json!(w.coords[d].0);
                q["destination_y"] = json!(w.coords[d].1);
            }
        }
        if !pc.rtree {
            q["origin_vertex"] = json!(o);
            if let Some(d) = d {
                q["destination_vertex"] = json!(d);
            }
        }
    };
    match kind {
        QKind::Valid | QKind::WeightOverride | QKind::Grid | QKind::FarCoord | QKind::NonObject => put_od(&mut q, o, Some(d)),
        QKind::SameOD => put_od(&mut q, o, Some(o)),
        QKind::NoDest => put_od(&mut q, o, None),
        QKind::OutOfRange => {
            put_od(&mut q, o, Some(d));
            if !pc.rtree {
                q["destination_vertex"] = json!(nv + r.below(5));
            }
        }
        QKind::MissingOrigin => {
            put_od(&mut q, o, Some(d));
            if let Some(m) = q.as_object_mut() {
                m.remove("origin_vertex");
                m.remove("origin_x");
            }
        }
        QKind::WrongType => {
            put_od(&mut q, o, Some(d));
            if pc.rtree {
                q["origin_x"] = json!("west");
            } else {
                q["origin_vertex"] = json!("zero");
            }
        }
    }
    if kind == QKind::FarCoord && pc.rtree {
        q["origin_x"] = json!(-100.0);
        q["origin_y"] = json!(45.0);
    }
    if kind == QKind::WeightOverride {
        let mut wm = serde_json::Map::new();
        for (k, _) in &w.weights {
            wm.insert(k.clone(), json!(many_digits(r, 0.1, 3.0)));
        }
        q["weights"] = Value::Object(wm);
        // other per-query cost parameters
        if r.chance(0.3) {
            let mut rm = serde_json::Map::new();
            for (k, _) in &w.weights {
                rm.insert(k.clone(), if r.chance(0.5) { json!({"type": "factor", "factor": many_digits(r, 0.2, 4.0)}) } else { json!({"type": "raw"}) });
            }
            q["vehicle_rates"] = Value::Object(rm);
        }
        if r.chance(0.15) {
            q["cost_aggregation"] = json!("mul");
        }
        if r.chance(0.2) && !matches!(w.traversal, crate::world::Traversal::Energy { .. }) {
            let unit = match &w.traversal {
                crate::world::Traversal::Distance { unit } => unit.clone(),
                crate::world::Traversal::Speed { distance_unit, .. } => distance_unit.clone().unwrap_or("meters".into()),
                _ => "meters".into(),
            };
            q["state_features"] = json!({"distance": {"distance_unit": unit, "initial": many_digits(r, 1.0, 50.0)}});
        }
    }
    if kind == QKind::Grid && pc.grid {
        let mut g = serde_json::Map::new();
        let n_axes = r.range(1, 3);
        for a in 0..n_axes {
            match r.below(3) {
                0 => {
                    let n = r.range(1, 3);
                    g.insert(format!("tag{}", a), Value::Array((0..n).map(|i| json!(format!("t{}_{}", a, i))).collect()));
                }
                1 if !pc.rtree => {
                    let n = r.range(1, 3);
                    g.insert("destination_vertex".into(), Value::Array((0..n).map(|_| json!(r.below(nv))).collect()));
                }
                1 => {
                    // coordinates as a grid axis: one option may lie outside the matching tolerance, so a
                    // plugin that runs after the expansion fails for one generated query only
                    let v = r.below(nv) as usize;
                    g.insert("origin_x".into(), json!([w.coords[v].0, if r.chance(0.5) { -100.0 } else { w.coords[(v + 1) % nv as usize].0 }]));
                }
                _ => {
                    let n = r.range(1, 2);
                    let opts: Vec<Value> = (0..n)
                        .map(|i| {
                            let mut wm = serde_json::Map::new();
                            for (k, _) in &w.weights {
                                wm.insert(k.clone(), json!(many_digits(r, 0.1, 3.0)));
                            }
                            json!({"weights": wm, "variant": i})
                        })
                        .collect();
                    g.insert("variants".into(), Value::Array(opts));
                }
            }
        }
        q["grid_search"] = Value::Object(g);
    }
    if r.chance(0.15) {
        // keys are the user's too: a slash or a tilde in a key is legal JSON (and means something in JSON pointers)
        q["speed_km/h"] = json!(r.range(20, 130));
        q["a~1b"] = json!(format!("t{}", qid));
    }
    if w.road_classes.is_some() && r.chance(0.4) {
        // allowed road classes (a subset may cut the destination off: a 'no path' error response)
        let n = r.range(1, 4);
        let mut cs: Vec<u64> = (0..n).map(|_| r.below(4)).collect();
        cs.sort();
        cs.dedup();
        q["road_classes"] = json!(cs);
    }
    if r.chance(0.15) {
        // a free-text field the user wants echoed (and possibly mapped to a CSV column): commas, line
        // breaks, tabs and non-ASCII text are all legal JSON strings. (No double quotes: the writer renders
        // cells as JSON, whose backslash escape no CSV reader understands - a recorded observation.)
        q["label"] = json!(*r.pick(&["plain", "with, comma", "two\nlines", "tab\there", "cr\r\nlf", "gr\u{fc}n \u{2713}", "", "trailing,"]));
    }
    if pc.lb == Some("custom") {
        // mostly ordinary estimates; sometimes ties, zero, negative or huge ones (all legal numbers)
        q["w"] = match r.below(20) {
            0 => json!(0),
            1 => json!(-3.5),
            2 => json!(1e300),
            3 | 4 => json!(1.0),
            _ => json!(many_digits(r, 0.1, 20.0)),
        };
    }
    (q, kind)
}

pub fn gen_out_file(r: &mut Rng, w: &World) -> OutFile {
    let format = if r.chance(0.6) {
        OutFormat::Json
    } else {
        let pool: Vec<(&str, Value)> = vec![
            ("qid", json!("request._qid")),
            ("distance", json!("route.traversal_summary.distance")),
            ("opt_distance", json!({"optional": "route.traversal_summary.distance"})),
            ("opt_time", json!({"optional": "route.traversal_summary.time"})),
            ("total", json!({"optional": {"sum": ["route.traversal_summary.distance", {"optional": "route.traversal_summary.time"}]}})),
            ("iters", json!({"optional": "iterations"})),
            ("cost", json!({"optional": "route.cost.total_cost"})),
            ("err", json!({"optional": "error"})),
            ("origin", json!({"optional": "request.origin_vertex"})),
            ("edges", json!({"optional": "route_edges"})),
            ("strict_cost", json!("route.cost.total_cost")),
            ("label", json!({"optional": "request.label"})),
            ("label", json!({"optional": "request.label"})),
            // column names are the user's: mixed case, leading underscore, digits (sorted = true sorts them byte-wise)
            ("Orig", json!({"optional": "request.origin_vertex"})),
            ("Time_s", json!({"optional": "route.traversal_summary.time"})),
            ("Zone", json!({"optional": "request.tag0"})),
            ("_qid", json!("request._qid")),
            ("2nd_cost", json!({"optional": "route.cost.total_cost"})),
            ("kmh", json!({"optional": "request.speed_km/h"})),
            ("tilde", json!({"optional": "request.a~1b"})),
            ("kmh_sum", json!({"optional": {"sum": [{"optional": "request.speed_km/h"}, {"optional": "iterations"}]}})),
        ];
        let mut idx: Vec<usize> = (0..pool.len()).collect();
        r.shuffle(&mut idx);
        let n = r.range(1, 6) as usize;
        let mut mapping: Vec<(String, Value)> = vec![];
        for i in idx.into_iter().take(n) {
            if !mapping.iter().any(|m| m.0 == pool[i].0) {
                mapping.push((pool[i].0.to_string(), pool[i].1.clone()));
            }
        }
        OutFormat::Csv { mapping, sorted: r.chance(0.5) }
    };
    let _ = w;
    let preexisting = matches!(format, OutFormat::Json) && r.chance(0.2);
    OutFile { format, flush_rate: *r.pick(&[None, Some(1), Some(3), Some(1000)]), preexisting }
}

pub fn graph_params(tier: Tier) -> GraphParams {
    match tier {
        Tier::Quick => GraphParams { nv: (3, 16), ..Default::default() },
        Tier::Thorough => GraphParams { nv: (3, 40), ..Default::default() },
    }
}

pub const MODEL_DIR: &str = "/repo/rust/routee-compass-powertrain/src/routee/test";

/// energy traversal with 1-3 vehicles; speeds and grades are snapped to a grid on which the
/// prediction-cache key is injective (so "with the cache" must equal "without the cache")
pub fn gen_energy(r: &mut Rng, w: &mut World) {
    use crate::world::{Traversal, VehicleCfg};
    let ps: i32 = *r.pick(&[0, 1, 2]);
    let pg: i32 = *r.pick(&[2, 3, 4]);
    let snap = |x: f64, p: i32| -> f64 {
        let m = 10f64.powi(p);
        (x * m).round() / m
    };
    // few distinct speeds and grades: many edges share one key component, so a key that loses a
    // component (or a value stored under the wrong key) shows quickly
    let n_s = r.range(2, 6) as usize;
    let n_g = r.range(2, 6) as usize;
    // unit configuration of the time model (speed table), of the energy model and of the time model's outputs
    let speed_unit = r.pick(&["kilometers_per_hour", "kilometers_per_hour", "miles_per_hour", "meters_per_second"]).to_string();
    let unit_scale = match speed_unit.as_str() {
        "miles_per_hour" => 1.0 / 1.609344,
        "meters_per_second" => 1.0 / 3.6,
        _ => 1.0,
    };
    let sp: Vec<f64> = (0..n_s).map(|_| snap((10.0 + r.f64() * 110.0) * unit_scale, ps).max(2.0)).collect();
    let gp: Vec<f64> = (0..n_g).map(|_| snap((r.f64() - 0.5) * 0.2, pg)).collect();
    for s in w.speeds.iter_mut() {
        *s = *r.pick(&sp);
    }
    for g in w.grades.iter_mut() {
        *g = *r.pick(&gp);
    }
    let mut vehicles = vec![];
    let kinds = ["ice", "bev", "phev"];
    let n = r.range(1, 3) as usize;
    // kinds drawn with replacement: two vehicles may share one model file (with different
    // adjustment / battery / cache), which is where a cache or record shared by mistake shows
    let order: Vec<usize> = (0..n).map(|_| r.below(3) as usize).collect();
    for (i, ki) in order.into_iter().enumerate() {
        let kind = kinds[ki];
        let cache = if r.chance(0.75) { Some((*r.pick(&[1usize, 2, 3, 8, 1000]), ps, pg)) } else { None };
        let (model, model2) = match kind {
            "ice" => (format!("{}/Toyota_Camry.bin", MODEL_DIR), None),
            "bev" => (format!("{}/2017_CHEVROLET_Bolt.bin", MODEL_DIR), None),
            _ => (format!("{}/2016_CHEVROLET_Volt_Charge_Depleting.bin", MODEL_DIR), Some(format!("{}/2016_CHEVROLET_Volt_Charge_Sustaining.bin", MODEL_DIR))),
        };
        vehicles.push(VehicleCfg {
            name: format!("{}_{}", kind, i),
            kind: kind.to_string(),
            model,
            model2,
            interpolate: r.chance(0.3),
            cache,
            // small batteries so that the charge runs out (and regenerates) on short routes
            battery_kwh: *r.pick(&[0.5, 2.0, 12.0, 60.0]),
            adjustment: if r.chance(0.5) { Some(many_digits(r, 1.0, 1.5)) } else { None },
            battery_unit: r.pick(&[None, None, None, Some("gallons_gasoline"), Some("gallons_diesel")]).map(|s| s.to_string()),
            ideal_rate_configured: r.chance(0.35),
            model_units: None,
            interp_bins: None,
        });
    }
    // the units a vehicle's model is declared in (a stream of its own: the other knobs stay as they were)
    let mut r4 = Rng::new(r.next_u64() ^ 0x756e697473);
    for v in vehicles.iter_mut() {
        if r4.chance(0.4) {
            v.model_units = Some((r4.pick(&["kilometers_per_hour", "miles_per_hour", "meters_per_second"]).to_string(), r4.pick(&["decimal", "percent", "millis"]).to_string()));
        }
    }
    let grade_unit = r.pick(&["decimal", "decimal", "percent", "millis"]).to_string();
    let (distance_unit, time_unit, time_model_units) = if r.chance(0.5) {
        (None, None, None)
    } else {
        (
            Some(r.pick(&["miles", "kilometers", "meters"]).to_string()),
            Some(r.pick(&["minutes", "hours", "seconds"]).to_string()),
            Some((r.pick(&["miles", "kilometers", "meters"]).to_string(), r.pick(&["minutes", "hours", "seconds"]).to_string())),
        )
    };
    w.traversal = Traversal::Energy { speed_unit, grade_unit, vehicles, distance_unit, time_unit, time_model_units };
    w.weights = vec![
        ("distance".into(), many_digits(r, 0.1, 1.0)),
        ("time".into(), many_digits(r, 0.1, 1.0)),
        ("energy_liquid".into(), many_digits(r, 0.5, 3.0)),
        ("energy_electric".into(), many_digits(r, 0.5, 3.0)),
    ];
}

/// reach probes for the optional parts of a generated world
pub fn world_reach(w: &World, reach: &mut std::collections::BTreeMap<String, u64>) {
    let mut put = |k: &str, b: bool| {
        if b {
            *reach.entry(k.to_string()).or_insert(0) += 1;
        }
    };
    put("worlds_turn_delay", w.headings.is_some());
    put("worlds_road_class", w.road_classes.is_some());
    put("worlds_uuid_plugin", w.uuid_plugin);
    put("worlds_edge_rtree", w.input_plugins.iter().any(|p| p["type"] == json!("edge_rtree")));
    put("worlds_vertex_rtree", w.input_plugins.iter().any(|p| p["type"] == json!("vertex_rtree")));
    put("worlds_edge_oriented", w.edge_oriented);
    put("worlds_ksp", w.algorithm.get("k").is_some());
    put("worlds_combined_sinks", w.out2.is_some());
    put("worlds_policies_at_run_level", w.policies_at_run_level);
    put("worlds_energy", matches!(w.traversal, Traversal::Energy { .. }));
    put("worlds_tree_output", w.traversal_plugin.as_ref().map_or(false, |p| p.1.is_some()));
    put("worlds_geometry_output", w.traversal_plugin.as_ref().map_or(false, |p| p.0 == "wkt" || p.0 == "geo_json" || p.0 == "wkb"));
}
