//! C08 — vehicle energy and battery state follow the powertrain model along a route.
//!
//! What simulation decides: the "with and without the prediction cache" clause. The cache is a
//! mutex-guarded LRU per vehicle, shared by all concurrent queries; with 1-3 entries the miss,
//! insert-race and eviction paths run constantly. Oracles: (i) every response equals the same
//! query on an application configured without any cache, run alone; (ii) per route edge, the
//! recorded energy equals what the uncached model (loaded by the harness through the public
//! load_prediction_model) predicts for that edge's table speed and grade; (iii) state of charge
//! arithmetic and the PHEV electric/liquid switch (pure clauses, evaluated because the data is there).

use super::common::*;
use crate::driver::{fnv64, Check, ChildResult, Tier, Violation};
use crate::oracle::*;
use crate::scenario::{execute, Case, ExecOpts, NoInstr, Obs};
use crate::sim::Rng;
use crate::world::{GraphParams, Traversal, VehicleCfg, World};
use routee_compass_core::model::unit::{as_f64::AsF64, Distance, DistanceUnit, EnergyRateUnit, EnergyUnit, Grade, GradeUnit, Speed, SpeedUnit};
use routee_compass_powertrain::routee::prediction::{load_prediction_model, model_type::ModelType, PredictionModelRecord};
use serde_json::{json, Value};
use std::collections::BTreeMap;

pub struct C08;

/// after each build (reference, then explored) asks every vehicle's traversal model for its best-case estimate
/// between the two ends of the first edge: "the best-case energy used to order the search is the ideal rate times
/// distance" - whatever the ideal rate is, two builds of one configuration must agree on it (round 7)
struct EstimateProbe {
    vehicles: Vec<(String, String)>, // name, kind
    out: serde_json::Map<String, Value>,
    /// where the stub model's rate has its minimum (miles per hour; an integer that is no multiple of ten)
    stub_minimum_at: f64,
}
impl crate::scenario::Instrument for EstimateProbe {
    fn after_build(&mut self, app: &mut routee_compass::app::compass::compass_app::CompassApp, reference: bool) {
        let mut per = serde_json::Map::new();
        for (name, kind) in &self.vehicles {
            let mut q = json!({"origin_vertex": 0, "destination_vertex": 1, "model_name": name});
            if kind != "ice" {
                q["starting_soc_percent"] = json!(50.0);
            }
            let r = std::panic::catch_unwind(std::panic::AssertUnwindSafe(|| -> Result<Value, String> {
                let si = app.search_app.build_search_instance(&q).map_err(|e| e.to_string())?;
                let g = &si.directed_graph;
                if g.n_vertices() < 2 {
                    return Ok(Value::Null);
                }
                let (a, b) = (
                    g.get_vertex(&routee_compass_core::model::network::VertexId(0)).map_err(|e| e.to_string())?,
                    g.get_vertex(&routee_compass_core::model::network::VertexId(g.n_vertices() - 1)).map_err(|e| e.to_string())?,
                );
                let mut st = si.state_model.initial_state().map_err(|e| e.to_string())?;
                si.traversal_model.estimate_traversal((a, b), &mut st, &si.state_model).map_err(|e| e.to_string())?;
                let first = si.state_model.serialize_state(&st);
                // a second estimate from the same vertex towards another one (round 9): the reference asks a fresh
                // search instance, the explored application the instance that has just answered the first - the way
                // the sub-searches of a k-shortest-paths query share one instance. An estimate is a function of its
                // two ends, not of what the model was asked before
                if g.n_vertices() >= 3 {
                    let c = g.get_vertex(&routee_compass_core::model::network::VertexId(1)).map_err(|e| e.to_string())?;
                    let si2 = if reference { Some(app.search_app.build_search_instance(&q).map_err(|e| e.to_string())?) } else { None };
                    let sj = si2.as_ref().unwrap_or(&si);
                    let mut st2 = sj.state_model.initial_state().map_err(|e| e.to_string())?;
                    sj.traversal_model.estimate_traversal((a, c), &mut st2, &sj.state_model).map_err(|e| e.to_string())?;
                    return Ok(json!({"to_last": first, "then_to_vertex_1": sj.state_model.serialize_state(&st2)}));
                }
                Ok(first)
            }));
            per.insert(name.clone(), match r {
                Ok(Ok(v)) => v,
                Ok(Err(e)) => json!({"error": e}),
                Err(_) => json!({"error": "panic"}),
            });
        }
        // the start-up sweep for the ideal rate itself, on a stub model whose rate has one narrow minimum (a
        // trait the code already has): asked once in the quiet phase and once while the clock may jump (a host
        // that stalls while the application starts) - the ideal rate of a model is not a matter of timing
        struct NarrowMinimum {
            at_mph: f64,
        }
        impl routee_compass_powertrain::routee::prediction::PredictionModel for NarrowMinimum {
            fn predict(&self, speed: (Speed, SpeedUnit), _grade: (Grade, GradeUnit)) -> Result<(routee_compass_core::model::unit::EnergyRate, EnergyRateUnit), routee_compass_core::model::traversal::traversal_model_error::TraversalModelError> {
                let mph = speed.1.convert(&speed.0, &SpeedUnit::MilesPerHour).as_f64();
                Ok((routee_compass_core::model::unit::EnergyRate::new(1.0 + (mph - self.at_mph).abs() * 0.01), EnergyRateUnit::KilowattHoursPerMile))
            }
        }
        let stub: std::sync::Arc<dyn routee_compass_powertrain::routee::prediction::PredictionModel> = std::sync::Arc::new(NarrowMinimum { at_mph: self.stub_minimum_at });
        if !reference {
            crate::sim::set_quiet(false);
        }
        let swept = std::panic::catch_unwind(std::panic::AssertUnwindSafe(|| routee_compass_powertrain::routee::prediction::prediction_model_ops::find_min_energy_rate(&stub, &EnergyRateUnit::KilowattHoursPerMile)));
        if !reference {
            crate::sim::set_quiet(true);
        }
        per.insert("(stub model with one narrow minimum)".into(), match swept {
            Ok(Ok(r)) => json!(r.as_f64()),
            Ok(Err(e)) => json!({"error": e.to_string()}),
            Err(_) => json!({"error": "panic"}),
        });
        self.out.insert(if reference { "reference".into() } else { "explored".into() }, Value::Object(per));
    }
    fn extra(&mut self) -> Value {
        json!({"estimates": Value::Object(self.out.clone())})
    }
}

pub fn gen_case(seed: u64, family: &str, tier: Tier) -> Case {
    if family == "known-stale-label" {
        // the recorded input of a known finding (see known_findings.json), met by every run of the check
        let dir = std::env::var("VERIF_OUT").unwrap_or_else(|_| "/verif".to_string());
        if let Ok(text) = std::fs::read_to_string(format!("{}/known_cases/c08_stale_label.json", dir)) {
            if let Ok(mut c) = serde_json::from_str::<Case>(&text) {
                c.seed = seed;
                return c;
            }
        }
    }
    let mut r = Rng::new(seed ^ fnv64("C08"));
    let gp = GraphParams { nv: (3, if tier == Tier::Quick { 10 } else { 16 }), p_disconnected: 0.1, ..Default::default() };
    let mut w = World::gen_graph(&mut r, &gp);
    gen_energy(&mut r, &mut w);
    gen_algorithm(&mut r, &mut w, false, false);
    w.traversal_plugin = Some(("json".into(), None));
    w.parallelism = r.range(1, 8) as usize;
    w.persist = true;
    w.out = None;
    let vehicles = match &w.traversal {
        Traversal::Energy { vehicles, .. } => vehicles.clone(),
        _ => vec![],
    };
    let pc = PluginChoice { override_heavy: false, grid: false, lb: None, inject: false, rtree: false, edge_rtree: false };
    let nq = r.range(2, if tier == Tier::Quick { 10 } else { 24 }) as usize;
    let mut batch = vec![];
    for qid in 0..nq {
        let (mut q, _) = gen_query(&mut r, &w, &pc, qid, false);
        if let Some(m) = q.as_object_mut() {
            m.remove("weights");
            m.remove("grid_search");
        }
        let v = r.pick(&vehicles);
        q["model_name"] = json!(v.name);
        if v.kind != "ice" {
            let any = many_digits(&mut r, 0.0, 100.0);
            // incl. the boundaries and charges so small that only "> 0" tells them from empty
            q["starting_soc_percent"] = json!(*r.pick(&[100.0, 50.0, 5.0, 1.0, 0.0, any, 0.000000001, 0.0000001, 99.999999999]));
        }
        if r.chance(0.05) {
            q["starting_soc_percent"] = json!(*r.pick(&[-1.0, 100.5, 1000.0]));
        } else if r.chance(0.12) {
            // not given: the vehicle starts fully charged
            if let Some(m) = q.as_object_mut() {
                m.remove("starting_soc_percent");
            }
        }
        batch.push(q);
    }
    let mut simcfg = gen_simcfg(&mut r);
    if family == "dense" {
        simcfg.alloc_every = 1;
        simcfg.p_stay = 0.5;
        simcfg.atomic_load_every = 1;
    }
    if family == "load" {
        // the application - its speed and grade tables among the rest - is built inside the explored phase, from
        // a disk that hands out its files in small pieces (short reads: always legal, never a reason to fail).
        // What the vehicles then record per edge is judged as in the other families (round 6)
        simcfg.faults = crate::sim::F_SHORT_READ | crate::sim::F_CLOCK_JUMP;
        simcfg.io_fault_rate = *r.pick(&[0.1, 0.5, 0.9]);
        // ... on a machine that stalls now and then while it loads (the monotonic clock jumps ahead)
        simcfg.clock_fault_rate = *r.pick(&[0.0, 0.01, 0.1]);
        simcfg.clock_jump_ns = *r.pick(&[300_000_000u64, 2_000_000_000, 60_000_000_000]);
        // (an application that finds the wall clock set back while it loads refuses to start: DESIGN.md, observations)
        simcfg.wall_step_rate = 0.0;
    }
    let workers = r.range(1, 6) as usize;
    // round 8 (a stream of its own): flat roads - a grade of exactly zero in the table -, interpolation grids of
    // other sizes up to some ten thousand cells, and an application that is built from inside the worker pool
    let mut r8 = Rng::new(seed ^ fnv64("C08-round8"));
    if r8.chance(0.4) {
        let flat: Vec<usize> = (0..w.grades.len()).filter(|_| r8.chance(0.4)).collect();
        for e in flat {
            w.grades[e] = 0.0;
        }
    }
    if let Traversal::Energy { vehicles, .. } = &mut w.traversal {
        for v in vehicles.iter_mut() {
            if v.interpolate {
                v.interp_bins = match r8.below(if family == "load" { 12 } else { 40 }) {
                    0 => Some((128, 64)),
                    1 | 2 => Some((5, 3)),
                    3 | 4 => Some((41, 17)),
                    _ => None,
                };
            }
        }
    }
    let build_in_pool = family == "load" && r8.chance(0.5);
    if family == "load" {
        if let Traversal::Energy { vehicles, .. } = &w.traversal {
            if vehicles.iter().any(|v| v.interp_bins.map_or(false, |b| b.0 * b.1 >= 4096)) {
                // a grid of thousands of cells is filled inside the explored phase: some hundred scheduling points
                // per model call would take the run to its step budget - preemption at system calls only there,
                // and a budget that fits the work (C08 is not the property that speaks about bounds)
                simcfg.alloc_every = 0;
                simcfg.atomic_every = 0;
                simcfg.atomic_load_every = 0;
                simcfg.max_steps = 30_000_000;
            }
        }
    }
    if batch.len() >= 2 && r.chance(0.25) {
        // two caller threads share the application and its prediction caches: each runs half of the queries
        let k = batch.len() / 2;
        let batches = vec![batch[..k].to_vec(), batch[k..].to_vec()];
        return Case { check: "C08".into(), seed, family: family.to_string(), world: w, batches, workers, run_parallelism: None, simcfg, recorded: None, params: json!({"two_callers": true, "build_in_pool": build_in_pool}) };
    }
    Case { check: "C08".into(), seed, family: family.to_string(), world: w, batches: vec![batch], workers, run_parallelism: None, simcfg, recorded: None, params: if build_in_pool { json!({"build_in_pool": true}) } else { Value::Null } }
}

fn load_uncached(v: &VehicleCfg, model: &str, rate_unit: EnergyRateUnit) -> Result<PredictionModelRecord, String> {
    let (m_speed, m_grade) = v.model_units.clone().unwrap_or(("miles_per_hour".into(), "decimal".into()));
    let (speed_unit, grade_unit): (SpeedUnit, GradeUnit) = (unit(&m_speed), unit(&m_grade));
    if !v.interpolate {
        // a raw model is built by its own constructor, not through the application's loading function: whatever
        // that function keeps between two loads in one process does not reach the oracle
        use routee_compass_powertrain::routee::prediction::smartcore::smartcore_speed_grade_model::SmartcoreSpeedGradeModel;
        let m = SmartcoreSpeedGradeModel::new(&model.to_string(), speed_unit, grade_unit, rate_unit).map_err(|e| e.to_string())?;
        return Ok(PredictionModelRecord {
            name: v.name.clone(),
            prediction_model: std::sync::Arc::new(m),
            model_type: ModelType::Smartcore,
            speed_unit,
            grade_unit,
            energy_rate_unit: rate_unit,
            ideal_energy_rate: routee_compass_core::model::unit::EnergyRate::new(0.0),
            real_world_energy_adjustment: v.adjustment.unwrap_or(1.0),
            cache: None,
        });
    }
    let (s_hi, g_hi) = crate::world::interpolation_bounds(&m_speed, &m_grade);
    let model_type = ModelType::Interpolate {
        underlying_model_type: Box::new(ModelType::Smartcore),
        speed_lower_bound: Speed::new(0.0),
        speed_upper_bound: Speed::new(s_hi),
        speed_bins: v.interp_bins.map_or(21, |b| b.0),
        grade_lower_bound: Grade::new(-g_hi),
        grade_upper_bound: Grade::new(g_hi),
        grade_bins: v.interp_bins.map_or(9, |b| b.1),
    };
    load_prediction_model(v.name.clone(), &model.to_string(), model_type, speed_unit, grade_unit, rate_unit, None, v.adjustment, None).map_err(|e| e.to_string())
}

fn unit<T: serde::de::DeserializeOwned>(name: &str) -> T {
    serde_json::from_value(json!(name)).expect("a unit name the generator wrote")
}

/// the unit configuration of an energy world
struct Units {
    speed: SpeedUnit,
    grade: GradeUnit,
    grade_factor: f64,
    energy_distance: DistanceUnit,
}
fn units_of(w: &World) -> Units {
    match &w.traversal {
        Traversal::Energy { speed_unit, grade_unit, distance_unit, .. } => Units {
            speed: unit(speed_unit),
            grade: unit(grade_unit),
            grade_factor: match grade_unit.as_str() {
                "percent" => 100.0,
                "millis" => 1000.0,
                _ => 1.0,
            },
            energy_distance: unit(distance_unit.as_deref().unwrap_or("miles")),
        },
        _ => Units { speed: SpeedUnit::KilometersPerHour, grade: GradeUnit::Decimal, grade_factor: 1.0, energy_distance: DistanceUnit::Miles },
    }
}

/// the uncached model's energy for one edge, in (value, unit), called the way the energy model is
/// specified to call it: speed = edge length over the time model's time for the edge, in the speed
/// table's unit; grade as the grade table holds it; length in the energy model's distance unit.
fn predict(rec: &PredictionModelRecord, w: &World, u: &Units, edge: usize, speed: f64) -> Result<(f64, EnergyUnit), String> {
    let dist = DistanceUnit::Meters.convert(&Distance::new(w.edges[edge].2), &u.energy_distance);
    let grade_in_table = crate::world::q9(w.grades[edge] * u.grade_factor);
    rec.predict((Speed::new(speed), u.speed), (Grade::new(grade_in_table), u.grade), (dist, u.energy_distance))
        .map(|(e, un)| (e.as_f64(), un))
        .map_err(|e| e.to_string())
}

fn judge(case: &Case, obs: &Obs) -> (Vec<Violation>, BTreeMap<String, u64>, bool) {
    let mut v: Vec<Violation> = vec![];
    let mut reach: BTreeMap<String, u64> = BTreeMap::new();
    let counters: std::cell::RefCell<BTreeMap<String, u64>> = std::cell::RefCell::new(BTreeMap::new());
    let bump = |k: &str, n: u64| *counters.borrow_mut().entry(k.to_string()).or_insert(0) += n;
    if let Some(e) = &obs.build_error {
        v.push(Violation { class: "build-failed".into(), detail: e.clone() });
        return (v, reach, false);
    }
    if let Some(e) = &obs.ref_build_error {
        v.push(Violation { class: "build-failed".into(), detail: format!("reference: {}", e) });
        return (v, reach, false);
    }
    for p in &obs.panics {
        v.push(Violation { class: super::c12::panic_class(p), detail: format!("panic: {} at {}", p.message, p.location) });
    }
    // best-case estimates of the two applications built from one configuration (reference: built in the quiet
    // phase; explored: in family load built under short reads and clock jumps)
    if let (Some(a), Some(b)) = (obs.extra.get("estimates").and_then(|e| e.get("reference")).and_then(|x| x.as_object()), obs.extra.get("estimates").and_then(|e| e.get("explored")).and_then(|x| x.as_object())) {
        for (name, ra) in a {
            if let Some(rb) = b.get(name) {
                bump("best_case_estimates_compared", 1);
                if ra.get("to_last").is_some() && json_close(&ra["to_last"], &rb["to_last"], 1e-9) && !json_close(&ra["then_to_vertex_1"], &rb["then_to_vertex_1"], 1e-9) {
                    v.push(Violation { class: "best-case-estimate-depends-on-earlier-estimate".into(), detail: format!("vehicle {}: the best-case estimate from vertex 0 to vertex 1 is {} on a fresh search instance and {} on an instance that was first asked for the estimate to the last vertex", name, ra["then_to_vertex_1"], rb["then_to_vertex_1"]) });
                } else if !json_close(ra, rb, 1e-9) {
                    v.push(Violation { class: "best-case-estimate-differs-between-builds".into(), detail: format!("vehicle {}: the best-case estimate between the first and the last vertex is {} in one application and {} in another built from the same configuration", name, ra, rb) });
                }
            }
        }
    }
    let w = &case.world;
    let units = units_of(w);
    let vehicles = match &w.traversal {
        Traversal::Energy { vehicles, .. } => vehicles.clone(),
        _ => vec![],
    };
    // (one run() call, or two handed to run() by two caller threads at the same time)
    let mut run: Vec<Value> = vec![];
    for r in &obs.runs {
        match r {
            Some(Ok(x)) => run.extend(x.iter().cloned()),
            Some(Err(e)) => {
                v.push(Violation { class: "run-error".into(), detail: e.clone() });
                return (v, reach, true);
            }
            None => return (v, reach, true),
        }
    }
    if obs.runs.is_empty() {
        return (v, reach, true);
    }
    let refs: Vec<Option<Vec<Value>>> = obs.reference.iter().flatten().cloned().collect();
    if refs.is_empty() || !refs.iter().all(|x| x.is_some()) {
        bump("reference_failed", 1);
        return (v, reach, false);
    }
    // (i) with the cache == without the cache, run alone
    let expected: Vec<Value> = refs.iter().flat_map(|x| x.clone().unwrap()).collect();
    for (c, d) in compare_by_request(&expected, &run, 1e-9) {
        v.push(Violation { class: format!("cache-{}", c), detail: d });
    }
    // uncached models for the per-edge oracle
    let mut recs: BTreeMap<String, (PredictionModelRecord, Option<PredictionModelRecord>)> = BTreeMap::new();
    for vc in &vehicles {
        let r = match vc.kind.as_str() {
            "ice" => load_uncached(vc, &vc.model, EnergyRateUnit::GallonsGasolinePerMile).map(|m| (m, None)),
            "bev" => load_uncached(vc, &vc.model, EnergyRateUnit::KilowattHoursPerMile).map(|m| (m, None)),
            _ => load_uncached(vc, &vc.model, EnergyRateUnit::KilowattHoursPerMile).and_then(|d| load_uncached(vc, vc.model2.as_ref().unwrap(), EnergyRateUnit::GallonsGasolinePerMile).map(|s| (d, Some(s)))),
        };
        match r {
            Ok(m) => {
                recs.insert(vc.name.clone(), m);
            }
            Err(e) => {
                v.push(Violation { class: "harness-model-load".into(), detail: e });
                return (v, reach, false);
            }
        }
    }
    for resp in &run {
        let req = &resp["request"];
        let name = req["model_name"].as_str().unwrap_or("");
        let vc = match vehicles.iter().find(|x| x.name == name) {
            Some(x) => x,
            None => continue,
        };
        let soc0 = req.get("starting_soc_percent").and_then(|x| x.as_f64());
        if let (Some(s), true) = (soc0, vc.kind != "ice") {
            if !(0.0..=100.0).contains(&s) {
                bump("soc_out_of_range_queries", 1);
                if resp.get("error").is_none() {
                    v.push(Violation { class: "soc-out-of-range-accepted".into(), detail: format!("starting charge {} was not rejected: {}", s, req) });
                }
                continue;
            }
        }
        if let (Some(sc), true) = (soc0, vc.kind != "ice") {
            if (0.0..=100.0).contains(&sc) && resp.get("error").and_then(|e| e.as_str()).map_or(false, |e| e.contains("starting_soc_percent")) {
                v.push(Violation { class: "soc-in-range-rejected".into(), detail: format!("starting charge {} is within 0-100 but was rejected: {}", sc, resp["error"]) });
            }
        }
        let route = match resp.get("route") {
            Some(r) if r.is_object() => r,
            _ => continue,
        };
        let sm = &route["state_model"];
        let idx = |n: &str| sm.get(n).and_then(|f| f["index"].as_u64()).map(|i| i as usize);
        let path = match route["path"].as_array() {
            Some(p) => p,
            None => continue,
        };
        bump("routes_checked", 1);
        let (rec_a, rec_b) = &recs[name];
        // the electric energy feature is kept in the unit the battery capacity is configured in: the model's
        // kWh are converted with the repository's own factor; the capacity likewise (see world.rs)
        let e_factor = match vc.battery_unit.as_deref() {
            Some("gallons_gasoline") => 0.031,
            Some("gallons_diesel") => 0.02457,
            _ => 1.0,
        };
        if vc.kind != "ice" && e_factor != 1.0 {
            bump("routes_with_battery_in_gallons", 1);
        }
        let cap = vc.battery_kwh * e_factor;
        let mut prev: Vec<f64> = {
            // initial state: zeros, except the state of charge
            let n = sm.as_object().map(|m| m.len()).unwrap_or(0);
            let mut s = vec![0.0; n];
            if let (Some(i), true) = (idx("battery_state"), vc.kind != "ice") {
                s[i] = soc0.unwrap_or(100.0);
            }
            s
        };
        // first: is every edge's recorded state the continuation of the previous edge's state at all?
        // (distance must grow by exactly the edge length, time must not decrease)
        {
            let mut p0 = prev.clone();
            let mut broken: Option<String> = None;
            for et in path {
                let e = et["edge_id"].as_u64().unwrap_or(0) as usize;
                let st: Vec<f64> = et["result_state"].as_array().map(|a| a.iter().map(|x| x.as_f64().unwrap_or(f64::NAN)).collect()).unwrap_or_default();
                if st.len() != p0.len() || e >= w.ne() {
                    break;
                }
                if let (Some(di), Some(ti)) = (idx("distance"), idx("time")) {
                    let state_du: DistanceUnit = unit(sm["distance"]["distance_unit"].as_str().unwrap_or("miles"));
                    let want = DistanceUnit::Meters.convert(&Distance::new(w.edges[e].2), &state_du).as_f64();
                    if !rel_close(st[di] - p0[di], want, 1e-6) || st[ti] < p0[ti] {
                        broken = Some(format!("{} edge {}: distance went {} -> {} (edge length {} in the state's unit), time {} -> {}", name, e, p0[di], st[di], want, p0[ti], st[ti]));
                        break;
                    }
                }
                p0 = st;
            }
            if let Some(d) = broken {
                // identified by vehicle kind: only a vehicle whose edge cost depends on the state at entry
                // (PHEV: electric or liquid) can keep a label computed from a predecessor that was replaced
                v.push(Violation { class: format!("route-state-not-accumulated[{}]", vc.kind), detail: d });
                continue;
            }
        }
        for et in path {
            let e = et["edge_id"].as_u64().unwrap_or(0) as usize;
            let st: Vec<f64> = et["result_state"].as_array().map(|a| a.iter().map(|x| x.as_f64().unwrap_or(f64::NAN)).collect()).unwrap_or_default();
            if st.len() != prev.len() {
                v.push(Violation { class: "state-length".into(), detail: format!("state vector has {} slots, the state model {}", st.len(), prev.len()) });
                break;
            }
            bump("edges_checked", 1);
            // "speed = length / time delta of the wrapped time model", computed as the energy model is specified
            // to: the state's time converted to the speed unit's time unit, the edge length to its distance unit
            let speed = match idx("time") {
                Some(ti) => {
                    use routee_compass_core::model::unit::{Time, TimeUnit};
                    let state_tu: TimeUnit = unit(sm["time"]["time_unit"].as_str().unwrap_or("minutes"));
                    let t0 = state_tu.convert(&Time::new(prev[ti]), &units.speed.associated_time_unit());
                    let t1 = state_tu.convert(&Time::new(st[ti]), &units.speed.associated_time_unit());
                    let d = DistanceUnit::Meters.convert(&Distance::new(w.edges[e].2), &units.speed.associated_distance_unit());
                    let s = Speed::from((d, t1 - t0)).as_f64();
                    // and that speed must be the table speed up to the rounding of the conversion constants
                    if !rel_close(s, w.speeds[e], 2e-3) {
                        v.push(Violation { class: "edge-speed".into(), detail: format!("{} edge {}: length/time gives {} but the speed table says {} ({:?})", name, e, s, w.speeds[e], units.speed) });
                    }
                    s
                }
                None => w.speeds[e],
            };
            let miles = w.edges[e].2 / 1609.344;
            let close_abs = |a: f64, b: f64| close_scaled(a, b, miles, 0.3);
            let close_gal = |a: f64, b: f64| close_scaled(a, b, miles, 0.03);
            let d = |n: &str| idx(n).map(|i| st[i] - prev[i]);
            let soc_prev = idx("battery_state").map(|i| prev[i]);
            let soc_now = idx("battery_state").map(|i| st[i]);
            match vc.kind.as_str() {
                "ice" => {
                    let (want, _) = predict(rec_a, w, &units, e, speed).unwrap_or((f64::NAN, EnergyUnit::GallonsGasoline));
                    let got = d("energy_liquid").unwrap_or(f64::NAN);
                    if !close_gal(got, want) {
                        v.push(Violation { class: "edge-energy".into(), detail: format!("{} edge {}: recorded liquid energy {} but the model gives {} (speed {} grade {} length {})", name, e, got, want, w.speeds[e], w.grades[e], w.edges[e].2) });
                    }
                }
                "bev" => {
                    let (want, _) = predict(rec_a, w, &units, e, speed).map(|(x, u)| (x * e_factor, u)).unwrap_or((f64::NAN, EnergyUnit::KilowattHours));
                    let got = d("energy_electric").unwrap_or(f64::NAN);
                    if !close_abs(got, want) {
                        v.push(Violation { class: "edge-energy".into(), detail: format!("{} edge {}: recorded electric energy {} but the model gives {} in the feature's unit (speed {} grade {} length {}; accumulated so far {})", name, e, got, want, w.speeds[e], w.grades[e], w.edges[e].2, idx("energy_electric").map(|i| prev[i]).unwrap_or(f64::NAN)) });
                    }
                    if want < 0.0 {
                        bump("regeneration_edges", 1);
                    }
                    check_soc(&mut v, &bump, name, e, soc_prev, soc_now, got, cap);
                }
                _ => {
                    let entry = soc_prev.unwrap_or(f64::NAN);
                    let de = d("energy_electric").unwrap_or(f64::NAN);
                    let dl = d("energy_liquid").unwrap_or(f64::NAN);
                    if entry > 0.0 {
                        bump("phev_edges_on_battery", 1);
                        if dl.abs() > 1e-12 {
                            // an edge that drains the battery may finish on liquid fuel; at least it must start electric
                            if de.abs() <= 1e-15 {
                                v.push(Violation { class: "phev-switch".into(), detail: format!("{} edge {}: entered with {}% charge but drew only liquid fuel ({})", name, e, entry, dl) });
                            }
                        } else {
                            let (want, _) = predict(rec_a, w, &units, e, speed).map(|(x, u)| (x * e_factor, u)).unwrap_or((f64::NAN, EnergyUnit::KilowattHours));
                            let full_soc_use = want / cap * 100.0;
                            if full_soc_use <= entry && !close_abs(de, want) {
                                v.push(Violation { class: "edge-energy".into(), detail: format!("{} edge {}: recorded electric energy {} but the charge-depleting model gives {}", name, e, de, want) });
                            }
                        }
                    } else {
                        bump("phev_edges_on_fuel", 1);
                        if de.abs() > 1e-12 {
                            v.push(Violation { class: "phev-switch".into(), detail: format!("{} edge {}: entered empty but drew electricity ({})", name, e, de) });
                        }
                        if let Some(s) = rec_b {
                            let (want, _) = predict(s, w, &units, e, speed).unwrap_or((f64::NAN, EnergyUnit::GallonsGasoline));
                            if !close_gal(dl, want) {
                                v.push(Violation { class: "edge-energy".into(), detail: format!("{} edge {}: recorded liquid energy {} but the charge-sustaining model gives {}", name, e, dl, want) });
                            }
                        }
                    }
                    check_soc(&mut v, &bump, name, e, soc_prev, soc_now, de, cap);
                }
            }
            prev = st;
        }
    }
    for (k, n) in counters.borrow().iter() {
        reach.insert(k.clone(), *n);
    }
    (v, reach, true)
}

/// The application reconstructs the edge speed as length / (time-model delta) through several unit
/// conversions whose constants are rounded (round trips are only good to ~1e-6), so the model is
/// evaluated at a speed that differs in the sixth digit from the table speed; allow 0.5 %.
fn close_scaled(a: f64, b: f64, miles: f64, per_mile_scale: f64) -> bool {
    // near a zero crossing of the rate (downhill) a relative bound is meaningless: also accept a tiny absolute error
    rel_close(a, b, 1e-7) || (a - b).abs() <= 1e-8 * miles * per_mile_scale
}

fn check_soc(v: &mut Vec<Violation>, bump: &dyn Fn(&str, u64), name: &str, e: usize, prev: Option<f64>, now: Option<f64>, d_electric_kwh: f64, cap: f64) {
    let (p, n) = match (prev, now) {
        (Some(p), Some(n)) => (p, n),
        _ => {
            v.push(Violation { class: "soc-missing".into(), detail: format!("{}: no battery_state feature", name) });
            return;
        }
    };
    if !(0.0..=100.0).contains(&n) {
        v.push(Violation { class: "soc-out-of-bounds".into(), detail: format!("{} edge {}: state of charge {}", name, e, n) });
    }
    let want = p - 100.0 * d_electric_kwh / cap;
    if want > 0.0 && want < 100.0 {
        if (n - want).abs() > 1e-6 {
            v.push(Violation { class: "soc-arithmetic".into(), detail: format!("{} edge {}: charge went {} -> {} but -100*dE/capacity gives {} (dE {} kWh, capacity {} kWh)", name, e, p, n, want, d_electric_kwh, cap) });
        }
    } else {
        bump("soc_clamped_edges", 1);
    }
}

impl Check for C08 {
    fn id(&self) -> &'static str {
        "C08"
    }
    fn families(&self, _tier: Tier) -> Vec<&'static str> {
        let mut f = vec![];
        for _ in 0..20 {
            f.extend(["schedule", "dense"]);
        }
        f.push("known-stale-label"); // 41 entries
        for k in [4, 14, 24, 34] {
            f[k] = "load";
        }
        f
    }
    fn default_runs(&self, tier: Tier) -> u64 {
        match tier {
            Tier::Quick => 2050,
            Tier::Thorough => 40000,
        }
    }
    fn gen(&self, seed: u64, family: &str, tier: Tier) -> Case {
        gen_case(seed, family, tier)
    }
    fn run(&self, case: &Case, fatal_fd: i32) -> ChildResult {
        let vehicles: Vec<(String, String)> = match &case.world.traversal {
            Traversal::Energy { vehicles, .. } => vehicles.iter().map(|v| (v.name.clone(), v.kind.clone())).collect(),
            _ => vec![],
        };
        let obs = execute(case, ExecOpts { reference: true, trace: false, log_clock: false, explore_build: case.family == "load" }, Box::new(EstimateProbe { vehicles, out: Default::default(), stub_minimum_at: { let k = 21 + (case.seed % 58); if k % 10 == 0 { (k + 3) as f64 } else { k as f64 } } }), fatal_fd);
        let (violations, mut reach, nontrivial) = judge(case, &obs);
        reach.insert("preemptions".into(), obs.stats.preemptions);
        if case.family == "load" {
            reach.insert("applications_built_under_short_reads".into(), 1);
            reach.insert("short_reads_while_building".into(), obs.stats.faults.get("short_read").copied().unwrap_or(0));
        }
        reach.insert("futex_waits".into(), obs.stats.futex_waits);
        reach.insert("two_caller_threads".into(), case.params.get("two_callers").and_then(|x| x.as_bool()).unwrap_or(false) as u64);
        let caches: Vec<Value> = match &case.world.traversal {
            Traversal::Energy { vehicles, .. } => vehicles.iter().map(|x| json!({"vehicle": x.name, "cache": x.cache, "interpolate": x.interpolate, "battery_kwh": x.battery_kwh})).collect(),
            _ => vec![],
        };
        for c in &caches {
            if c["cache"].is_array() {
                *reach.entry("vehicles_with_cache".into()).or_insert(0) += 1;
                if c["cache"][0].as_u64().unwrap_or(99) <= 3 {
                    *reach.entry("vehicles_with_tiny_cache".into()).or_insert(0) += 1;
                }
            }
        }
        let sig = fnv64(&format!("{}|{}|{}", serde_json::to_string(&case.batches).unwrap(), serde_json::to_string(&caches).unwrap(), obs.stats.sched_hash));
        ChildResult {
            violations,
            nontrivial,
            signature: sig,
            reach,
            sample: json!({"seed": case.seed, "family": case.family, "vehicles": caches, "workers": case.workers, "queries": case.batches.iter().map(|b| b.len()).sum::<usize>(), "first_query": case.batches[0].first(), "switches": obs.stats.switches,
                "responses": if std::env::var_os("SIM_DUMP").is_some() { json!(obs.runs) } else { Value::Null }}),
            stats: Some(obs.stats.clone()),
            recorded: Some(obs.recorded.clone()),
            harness_error: None,
        }
    }
    fn rule(&self) -> String {
        "each evaluation = one generated network (3-16 vertices) with an energy traversal model over the bundled random-forest models (ICE Camry, BEV Bolt, PHEV Volt depleting+sustaining; raw or interpolated; optional real-world adjustment; battery 0.5-60 kWh), 1-3 vehicles each with its own prediction cache of 1/2/3/8/1000 entries or none, speeds and grades snapped to a grid on which the cache key (precision 0-2 / 2-4 decimals) is injective; a batch of 2-24 queries (vehicle, starting charge incl. 0, tiny and out-of-range values) on a simulated pool of 1-6 workers sharing the caches, under a seeded schedule (family dense: preemption at every allocation). Compared with the same queries on a cache-less application run alone, and edge by edge with the uncached model. distinct = distinct (batch, cache configuration, schedule hash). Unit configurations per world: speed table km/h / mph / m/s, grade table decimal / percent / millis, energy model miles / km / m and minutes / hours / seconds, time-model outputs likewise Round 6: the speed / grade units a vehicle model is declared to take its inputs in vary per vehicle (two vehicles may share one model file and type with different units); the raw models of the oracle are built by their own constructor, not through the application loading function; family load = the application (speed and grade tables among the rest) is built inside the explored phase under short reads; two caller threads share the application in a quarter of the runs. Round 7: after each build every vehicle is asked for its best-case estimate between the first and the last vertex (two builds of one configuration must agree), and the ideal-rate sweep is called on a stub model with one narrow minimum in the quiet phase and under clock jumps; family load also builds under clock jumps. Rounds 8-9: flat roads (grade exactly zero on a share of the edges); interpolation grids of 5 x 3 to 128 x 64 cells; in family load the application may be built from inside the worker pool (the reference inside a pool of one); a second best-case estimate on the search instance that has just answered one is compared with a fresh instance's.".into()
    }
    fn assumptions(&self) -> Vec<String> {
        vec![
            "cache keys are lossy by design; the check only generates worlds where distinct (speed, grade) pairs have distinct keys, so cached and uncached results must agree".into(),
            "the per-edge oracle calls the repository's own uncached prediction model; a defect inside the model arithmetic itself (wrong the same way with and without cache) is not detected here".into(),
            "state-of-charge arithmetic, clamping and the PHEV switch are pure clauses: evaluated on the simulated runs' data, not decided by schedule exploration".into(),
        ]
    }
}
