//! C15 — the loaded network is exactly the one described by the edge/vertex files.
//! What simulation decides here: the loaders as *stream readers* under short reads, EINTR (legal:
//! the graph must be exact) and EIO / truncated gzip streams (hard: fail or be exact, never hang,
//! never panic, never silently different).

use super::common::*;
use crate::driver::{fnv64, Check, ChildResult, Tier, Violation};
use crate::oracle::{canon, json_close, strip_volatile};
use crate::scenario::{build_app, execute_custom, Case};
use crate::sim::{self, Rng};
use crate::world::{GraphParams, World};
use routee_compass::app::compass::config::graph_builder::DefaultGraphBuilder;
use routee_compass_core::model::network::{edge_id::EdgeId, graph::Graph, vertex_id::VertexId};
use routee_compass_core::model::traversal::default::speed_traversal_engine::SpeedTraversalEngine;
use routee_compass_core::model::unit::{as_f64::AsF64, SpeedUnit};
use serde_json::{json, Value};
use std::collections::BTreeMap;

pub struct C15;

fn compare_graph(w: &World, g: &Graph) -> Vec<String> {
    let mut d = vec![];
    if g.n_edges() != w.ne() {
        d.push(format!("n_edges {} but the file lists {}", g.n_edges(), w.ne()));
    }
    if g.n_vertices() != w.nv() {
        d.push(format!("n_vertices {} but the file lists {}", g.n_vertices(), w.nv()));
    }
    // (a scanned count counts the file's lines - blank ones and line breaks inside quoted cells included - so
    // the adjacency tables may have spare, empty slots beyond the last vertex; never fewer, never used ones)
    if g.adj.len() < w.nv() || g.rev.len() < w.nv() || g.adj.len() != g.rev.len() {
        d.push(format!("adjacency views have {} / {} entries for {} vertices", g.adj.len(), g.rev.len(), w.nv()));
    }
    if g.adj.iter().skip(w.nv()).any(|m| m.iter().next().is_some()) || g.rev.iter().skip(w.nv()).any(|m| m.iter().next().is_some()) {
        d.push(format!("an adjacency slot beyond the last listed vertex ({}) holds edges", w.nv()));
    }
    if g.get_vertex(&VertexId(w.nv())).is_ok() {
        d.push(format!("vertex {} is not listed, but the graph has a vertex there", w.nv()));
    }
    if w.explicit_counts && (g.adj.len() != w.nv() || g.rev.len() != w.nv()) {
        d.push(format!("adjacency views have {} / {} entries although the configuration says {} vertices", g.adj.len(), g.rev.len(), w.nv()));
    }
    for (i, (a, b, dist)) in w.edges.iter().enumerate() {
        match g.get_edge(&EdgeId(i)) {
            Ok(e) => {
                if e.edge_id.0 != i || e.src_vertex_id.0 != *a || e.dst_vertex_id.0 != *b || e.distance.as_f64() != *dist {
                    d.push(format!("edge {} is ({},{},{}) but the file says ({},{},{})", i, e.src_vertex_id.0, e.dst_vertex_id.0, e.distance.as_f64(), a, b, dist));
                }
            }
            Err(_) => d.push(format!("edge {} is not retrievable", i)),
        }
    }
    for (v, (x, y)) in w.coords.iter().enumerate() {
        match g.get_vertex(&VertexId(v)) {
            Ok(vx) => {
                // (a coordinate listed with some twenty digits: the nearest f32 to the decimal as written)
                let want_x = w.x_text.get(&v).and_then(|t| t.parse::<f32>().ok()).unwrap_or(*x as f32);
                if vx.vertex_id.0 != v || vx.x() != want_x || vx.y() != *y as f32 {
                    d.push(format!("vertex {} is ({},{}) but the file says ({},{})", v, vx.x(), vx.y(), x, y));
                }
            }
            Err(_) => d.push(format!("vertex {} is not retrievable", v)),
        }
        let mut out: Vec<usize> = g.out_edges(&VertexId(v)).iter().map(|e| e.0).collect();
        let mut inn: Vec<usize> = g.in_edges(&VertexId(v)).iter().map(|e| e.0).collect();
        let n_out = out.len();
        let n_in = inn.len();
        out.sort();
        out.dedup();
        inn.sort();
        inn.dedup();
        let want_out: Vec<usize> = w.edges.iter().enumerate().filter(|(_, e)| e.0 == v).map(|(i, _)| i).collect();
        let want_in: Vec<usize> = w.edges.iter().enumerate().filter(|(_, e)| e.1 == v).map(|(i, _)| i).collect();
        if out != want_out || n_out != want_out.len() {
            d.push(format!("out_edges({}) = {:?} but the file lists {:?}", v, out, want_out));
        }
        if inn != want_in || n_in != want_in.len() {
            d.push(format!("in_edges({}) = {:?} but the file lists {:?}", v, inn, want_in));
        }
    }
    // forward and reverse views describe one edge set
    let mut fwd: Vec<(usize, usize, usize)> = vec![];
    for (v, m) in g.adj.iter().enumerate() {
        for (e, dst) in m.iter() {
            fwd.push((e.0, v, dst.0));
        }
    }
    let mut rev: Vec<(usize, usize, usize)> = vec![];
    for (v, m) in g.rev.iter().enumerate() {
        for (e, src) in m.iter() {
            rev.push((e.0, src.0, v));
        }
    }
    fwd.sort();
    rev.sort();
    if fwd != rev {
        d.push(format!("forward and reverse adjacency describe different edge sets ({} vs {} entries)", fwd.len(), rev.len()));
    }
    d.truncate(4);
    d
}

/// the network the files are regenerated from: other sizes, same paths and compression as `w`
fn reload_world(w: &World, seed: u64) -> World {
    let mut r = Rng::new(seed ^ fnv64("C15-reload"));
    let gp = GraphParams { nv: (1, 40), extra_edge_factor: 2.0, ..Default::default() };
    let mut w2 = World::gen_graph(&mut r, &gp);
    w2.gz_edges = w.gz_edges;
    w2.gz_vertices = w.gz_vertices;
    w2.gz_tables = w.gz_tables;
    w2.gz_misnamed = w.gz_misnamed;
    w2.text_variant = w.text_variant;
    w2.explicit_counts = w.explicit_counts;
    w2
}

pub const ENUM_KINDS: [(&str, u64); 7] = [("short_read", 1), ("eintr_read", 0), ("eio_read", 0), ("eio_read", 1), ("short_read", 3), ("bitflip_read", 5), ("bitflip_read", 70)];
pub const ENUM_GROUP: u64 = 224; // 32 read positions x 7 fault kinds per world

/// complete enumeration for small worlds: seeds of one group share a world; the position inside the
/// group selects (index of the faulted read, fault kind). A position beyond the last read of the
/// load fires nothing, which is how the run learns that the world's positions are exhausted.
fn gen_enumerate(base_seed: u64, seed: u64, family_index: u64) -> Case {
    // the j-th run of this family: world = j / ENUM_GROUP (derived from the base seed), position = j % ENUM_GROUP
    let group = family_index / ENUM_GROUP;
    let pos = family_index % ENUM_GROUP;
    let mut r = Rng::new(base_seed.wrapping_mul(0x9E3779B97F4A7C15) ^ group ^ fnv64("C15-enum"));
    let gp = GraphParams { nv: (1, 7), extra_edge_factor: 2.5, ..Default::default() };
    let mut w = World::gen_graph(&mut r, &gp);
    w.gz_edges = r.chance(0.5);
    w.gz_vertices = r.chance(0.5);
    w.gz_tables = r.chance(0.5);
    w.gz_misnamed = false;
    w.text_variant = *r.pick(&[0u8, 0, 1, 2]);
    w.explicit_counts = r.chance(0.4);
    let (kind, arg) = ENUM_KINDS[(pos % ENUM_KINDS.len() as u64) as usize];
    let idx = pos / ENUM_KINDS.len() as u64;
    let mut simcfg = sim::SimCfg::default();
    simcfg.sched = sim::SchedMode::Cooperative;
    simcfg.faults = sim::F_SHORT_READ | sim::F_EINTR_READ | sim::F_EIO_READ | sim::F_BITFLIP_READ;
    simcfg.max_hard_faults = 1;
    simcfg.max_steps = 400_000;
    // a flipped bit is only injected where it is detectable (checksummed gzip streams)
    simcfg.trunc_paths = vec![".gz".into()];
    let recorded = sim::Recorded { sched: vec![], faults: vec![sim::FaultEv { at: "io".into(), idx, kind: kind.to_string(), arg }] };
    Case { check: "C15".into(), seed, family: "enumerate".into(), world: w, batches: vec![], workers: 1, run_parallelism: None, simcfg, recorded: Some(recorded), params: json!({"group": group, "read_index": idx, "kind": kind, "arg": arg}) }
}

// ---------------------------------------------------------------------------
// families app-legal / app-hard: the whole application is built from its files while the simulator
// faults read() and open(); every table loader the configuration names takes part (edge and vertex
// lists, speed table, edge headings, road classes, geometries, vertex identifiers, the matching
// plugin's copies of vertices / geometries / road classes). Oracle: the application built under
// faults answers a batch exactly like the application built from the same files without faults;
// plus generator-side checks that per-edge / per-vertex tables are aligned by row.
// ---------------------------------------------------------------------------

fn gen_app(seed: u64, family: &str, tier: Tier) -> Case {
    use crate::world::Traversal;
    let mut r = Rng::new(seed ^ fnv64("C15-app"));
    let gp = GraphParams { nv: (2, if tier == Tier::Quick { 12 } else { 30 }), p_disconnected: 0.15, ..Default::default() };
    let mut w = World::gen_graph(&mut r, &gp);
    gen_traversal(&mut r, &mut w);
    let has_time = !matches!(w.traversal, Traversal::Distance { .. });
    if has_time && r.chance(0.6) {
        w.headings = Some((0..w.ne()).map(|_| (r.below(360) as i16, if r.chance(0.7) { Some(r.below(360) as i16) } else { None })).collect());
        w.turn_delays = Some(TURNS.iter().map(|t| (t.to_string(), many_digits(&mut r, 0.0, 30.0))).collect());
    }
    if r.chance(0.6) {
        w.road_classes = Some((0..w.ne()).map(|_| r.below(4) as u8).collect());
    }
    w.uuid_plugin = r.chance(0.5);
    w.gz_edges = r.chance(0.5);
    w.gz_vertices = r.chance(0.5);
    w.gz_tables = r.chance(0.5);
    gen_algorithm(&mut r, &mut w, false, false);
    w.traversal_plugin = Some((r.pick(&["geo_json", "json", "wkt", "edge_id", "geo_json"]).to_string(), None));
    w.input_plugins = vec![];
    let matching = r.below(3);
    if matching == 1 {
        w.input_plugins.push(json!({"type": "vertex_rtree", "vertices_input_file": w.vertices_path()}));
    } else if matching == 2 {
        w.edge_oriented = true;
        let mut p = json!({"type": "edge_rtree", "geometry_input_file": w.table_path_pub("geoms")});
        if w.road_classes.is_some() && r.chance(0.7) {
            p["road_class_input_file"] = json!(w.table_path_pub("classes"));
        }
        w.input_plugins.push(p);
    }
    w.text_variant = *r.pick(&[0u8, 0, 0, 1, 2]);
    w.gz_members = *r.pick(&[0u8, 0, 0, 2, 3]);
    w.explicit_counts = r.chance(0.4);
    w.parallelism = 1;
    let nq = r.range(2, 8) as usize;
    let nv = w.nv() as u64;
    let mut batch = vec![];
    for qid in 0..nq {
        let o = r.below(nv) as usize;
        let d = r.below(nv) as usize;
        let mut q = json!({"_qid": qid});
        if matching == 0 {
            q["origin_vertex"] = json!(o);
            q["destination_vertex"] = json!(d);
        } else {
            q["origin_x"] = json!(w.coords[o].0);
            q["origin_y"] = json!(w.coords[o].1);
            q["destination_x"] = json!(w.coords[d].0);
            q["destination_y"] = json!(w.coords[d].1);
        }
        if w.road_classes.is_some() && r.chance(0.5) {
            let n = r.range(1, 4);
            let mut cs: Vec<u64> = (0..n).map(|_| r.below(4)).collect();
            cs.sort();
            cs.dedup();
            q["road_classes"] = json!(cs);
        }
        batch.push(q);
    }
    let mut simcfg = sim::SimCfg::default();
    simcfg.sched = sim::SchedMode::Cooperative;
    simcfg.max_steps = 1_000_000;
    if family == "app-legal" {
        simcfg.faults = sim::F_SHORT_READ | sim::F_EINTR_READ;
        simcfg.io_fault_rate = *r.pick(&[0.02, 0.1, 0.4, 0.9]);
    } else {
        simcfg.faults = sim::F_SHORT_READ | *r.pick(&[sim::F_EIO_READ, sim::F_TRUNC_READ, sim::F_BITFLIP_READ, sim::F_EOPEN]);
        if w.gz_members >= 2 && simcfg.faults & sim::F_TRUNC_READ != 0 {
            simcfg.faults = sim::F_SHORT_READ | sim::F_EIO_READ;
        }
        simcfg.io_fault_rate = *r.pick(&[0.02, 0.1, 0.3]);
        simcfg.max_hard_faults = 1;
        simcfg.trunc_paths = vec![".gz".into()];
    }
    Case { check: "C15".into(), seed, family: family.to_string(), world: w, batches: vec![batch], workers: 1, run_parallelism: None, simcfg, recorded: None, params: Value::Null }
}

/// the slot a state feature gets in the state vector depends on the iteration order of a hash map that
/// is seeded per application instance: state vectors are compared by feature name, not by position
fn by_feature_name(resp: &Value) -> Value {
    let mut x = strip_volatile(resp);
    let names: BTreeMap<usize, String> = x["route"]["state_model"].as_object().map(|m| m.iter().filter_map(|(k, f)| f["index"].as_u64().map(|i| (i as usize, k.clone()))).collect()).unwrap_or_default();
    fn walk(v: &mut Value, names: &BTreeMap<usize, String>) {
        match v {
            Value::Object(m) => {
                if let Some(Value::Array(a)) = m.get("result_state") {
                    let o: serde_json::Map<String, Value> = a.iter().enumerate().map(|(i, s)| (names.get(&i).cloned().unwrap_or_else(|| format!("slot{}", i)), s.clone())).collect();
                    m.insert("result_state".into(), Value::Object(o));
                }
                m.remove("index");
                for (_, c) in m.iter_mut() {
                    walk(c, names);
                }
            }
            Value::Array(a) => {
                for c in a.iter_mut() {
                    walk(c, names);
                }
            }
            _ => {}
        }
    }
    walk(&mut x, &names);
    x
}

/// generator-side alignment checks on the responses of the application built without faults
fn alignment_diffs(w: &World, responses: &[Value]) -> Vec<(String, String)> {
    let mut d = vec![];
    let fmt = w.traversal_plugin.as_ref().map(|p| p.0.clone()).unwrap_or_default();
    for resp in responses {
        if resp.get("error").is_some() {
            continue;
        }
        let req = &resp["request"];
        // vertex identifiers are the ones stored for the matched vertices
        if w.uuid_plugin {
            for (vk, uk) in [("origin_vertex", "origin_vertex_uuid"), ("destination_vertex", "destination_vertex_uuid")] {
                if let (Some(v), Some(u)) = (req.get(vk).and_then(|x| x.as_u64()), resp.get(uk).and_then(|x| x.as_str())) {
                    if u != crate::world::uuid_of(v as usize) {
                        d.push(("uuid-misaligned".to_string(), format!("{} {} carries identifier {:?}, the file's row {} says {:?}", vk, v, u, v, crate::world::uuid_of(v as usize))));
                    }
                }
            }
        }
        let path = &resp["route"]["path"];
        // edge ids of the route, where the format shows them
        let edge_ids: Option<Vec<usize>> = match fmt.as_str() {
            "edge_id" => path.as_array().map(|a| a.iter().filter_map(|x| x.as_u64().map(|e| e as usize)).collect()),
            "json" => path.as_array().map(|a| a.iter().filter_map(|x| x["edge_id"].as_u64().map(|e| e as usize)).collect()),
            "geo_json" => path["features"].as_array().map(|a| a.iter().filter_map(|f| f["properties"]["edge_id"].as_u64().map(|e| e as usize)).collect()),
            _ => None,
        };
        if let Some(ids) = &edge_ids {
            // road classes are aligned with edge ids by row: no edge outside the query's allowed classes
            if let (Some(rc), Some(allowed)) = (&w.road_classes, req.get("road_classes").and_then(|x| x.as_array())) {
                let allowed: Vec<u64> = allowed.iter().filter_map(|x| x.as_u64()).collect();
                // (edge-oriented searches report the matched origin / destination edges themselves, which the
                // matching plugin filters with its own copy of the table when configured with it)
                let inner: Vec<usize> = if w.edge_oriented && ids.len() >= 2 { ids[1..ids.len() - 1].to_vec() } else if w.edge_oriented { vec![] } else { ids.clone() };
                for e in inner {
                    if e < rc.len() && !allowed.contains(&(rc[e] as u64)) {
                        d.push(("road-class-misaligned".to_string(), format!("route uses edge {} whose class in row {} of the file is {}, allowed {:?}", e, e, rc[e], allowed)));
                    }
                }
            }
        }
        // geometries are aligned with edge ids by row
        if fmt == "geo_json" {
            for f in path["features"].as_array().cloned().unwrap_or_default() {
                if let Some(e) = f["properties"]["edge_id"].as_u64().map(|e| e as usize) {
                    if e >= w.ne() {
                        continue;
                    }
                    let (a, b, _) = w.edges[e];
                    let want = [w.coords[a], w.coords[b]];
                    let got: Vec<(f32, f32)> = f["geometry"]["coordinates"].as_array().map(|c| c.iter().map(|p| (p[0].as_f64().unwrap_or(f64::NAN) as f32, p[1].as_f64().unwrap_or(f64::NAN) as f32)).collect()).unwrap_or_default();
                    if got.len() != 2 || got[0] != (want[0].0 as f32, want[0].1 as f32) || got[1] != (want[1].0 as f32, want[1].1 as f32) {
                        d.push(("geometry-misaligned".to_string(), format!("edge {}: geometry {:?} but row {} of the file says {:?}", e, got, e, want)));
                    }
                }
            }
        }
    }
    d.truncate(4);
    d
}

/// the graph as the language-binding interface shows it (`CompassAppBindings::graph_*`: plain indices in, plain
/// indices out) against the generator's own lists
fn graph_api_diffs(w: &World, bind: &crate::scenario::Bind) -> Vec<String> {
    use routee_compass::app::bindings::CompassAppBindings;
    let mut d = vec![];
    for (i, (a, b, dist)) in w.edges.iter().enumerate() {
        match (bind.graph_edge_origin(i), bind.graph_edge_destination(i)) {
            (Ok(o), Ok(t)) if o == *a && t == *b => {}
            (o, t) => d.push(format!("edge {}: origin {:?} destination {:?} but the file says {} -> {}", i, o.ok(), t.ok(), a, b)),
        }
        match bind.graph_edge_distance(i, None) {
            Ok(x) if x == *dist => {}
            x => d.push(format!("edge {}: distance {:?} but the file says {} (metres)", i, x.ok(), dist)),
        }
        for (unit, factor, tol) in [("meters", 1.0, 0.0), ("kilometers", 1e-3, 1e-12), ("miles", 1.0 / 1609.344, 1e-3)] {
            match bind.graph_edge_distance(i, Some(unit.to_string())) {
                Ok(x) if (x - dist * factor).abs() <= tol * (dist * factor).abs() => {}
                x => d.push(format!("edge {}: distance in {} is {:?} but the file says {} metres", i, unit, x.ok(), dist)),
            }
        }
    }
    for v in 0..w.nv() {
        let mut out: Vec<usize> = bind.graph_get_out_edge_ids(v);
        let mut inc: Vec<usize> = bind.graph_get_in_edge_ids(v);
        out.sort();
        inc.sort();
        let want_out: Vec<usize> = w.edges.iter().enumerate().filter(|(_, e)| e.0 == v).map(|(i, _)| i).collect();
        let want_in: Vec<usize> = w.edges.iter().enumerate().filter(|(_, e)| e.1 == v).map(|(i, _)| i).collect();
        if out != want_out {
            d.push(format!("vertex {}: outgoing edges {:?} but the file lists {:?}", v, out, want_out));
        }
        if inc != want_in {
            d.push(format!("vertex {}: incoming edges {:?} but the file lists {:?}", v, inc, want_in));
        }
    }
    // an edge that is not listed is not there; a vertex that is not listed has no edges
    if bind.graph_edge_origin(w.ne()).is_ok() || bind.graph_edge_destination(w.ne()).is_ok() || bind.graph_edge_distance(w.ne(), None).is_ok() {
        d.push(format!("edge {} is not listed, but the binding interface returns one", w.ne()));
    }
    if !bind.graph_get_out_edge_ids(w.nv()).is_empty() || !bind.graph_get_in_edge_ids(w.nv()).is_empty() {
        d.push(format!("vertex {} is not listed, but the binding interface returns edges for it", w.nv()));
    }
    d.truncate(6);
    d
}

fn run_app(case: &Case, fatal_fd: i32) -> ChildResult {
    let out = execute_custom(case, fatal_fd, |case| {
        let w = &case.world;
        let cfg = w.config(true);
        let batch = case.batches[0].clone();
        let pool = crate::harness::make_pool(1);
        let run = |app: &routee_compass::app::compass::compass_app::CompassApp| -> Value {
            match std::panic::catch_unwind(std::panic::AssertUnwindSafe(|| pool.install(|| app.run(batch.clone(), None)))) {
                Ok(Ok(v)) => json!(v.iter().map(by_feature_name).collect::<Vec<_>>()),
                Ok(Err(e)) => json!({"run_error": e.to_string()}),
                Err(_) => json!({"run_panic": true}),
            }
        };
        // the application built from intact reads
        let reference = match std::panic::catch_unwind(std::panic::AssertUnwindSafe(|| build_app(&cfg))) {
            Ok(Ok(app)) => run(&app),
            Ok(Err(e)) => json!({"build_error": e}),
            Err(_) => json!({"build_panic": true}),
        };
        let _ = crate::scenario::take_panics();
        // the application built while reads and opens are faulted
        sim::set_quiet(false);
        let built = std::panic::catch_unwind(std::panic::AssertUnwindSafe(|| build_app(&cfg)));
        sim::set_quiet(true);
        let mut graph_api = Value::Null;
        let got = match built {
            Ok(Ok(app)) => {
                let bind = crate::scenario::Bind { app };
                graph_api = match std::panic::catch_unwind(std::panic::AssertUnwindSafe(|| graph_api_diffs(w, &bind))) {
                    Ok(d) => json!(d),
                    Err(_) => json!(["the graph accessors of the binding interface panicked"]),
                };
                run(&bind.app)
            }
            Ok(Err(e)) => json!({"build_error": e}),
            Err(_) => json!({"build_panic": true}),
        };
        json!({"reference": reference, "got": got, "graph_api": graph_api})
    });
    let w = &case.world;
    let mut v = vec![];
    let mut reach: BTreeMap<String, u64> = BTreeMap::new();
    for p in &out.panics {
        v.push(Violation { class: format!("panic@{}", super::c12::panic_class(p).trim_start_matches("panic@")), detail: format!("panic while building / running: {} at {}", p.message, p.location) });
    }
    let hard_fired: u64 = out.stats.faults.iter().filter(|(k, _)| k.starts_with("eio") || k.starts_with("trunc") || k.starts_with("bitflip") || k.starts_with("eopen")).map(|(_, n)| *n).sum();
    let eintr_fired: u64 = out.stats.faults.get("eintr_read").copied().unwrap_or(0);
    let mut nontrivial = false;
    if let Some(val) = &out.value {
        let reference = &val["reference"];
        let got = &val["got"];
        if let Some(ds) = val["graph_api"].as_array() {
            *reach.entry("app_graph_read_through_binding_accessors".into()).or_insert(0) += 1;
            if !ds.is_empty() {
                v.push(Violation { class: if hard_fired > 0 { "app-graph-silently-different-after-hard-fault".into() } else { "app-graph-accessors-differ".into() }, detail: ds.iter().filter_map(|x| x.as_str()).collect::<Vec<_>>().join("; ") });
            }
        }
        match reference.as_array() {
            None => v.push(Violation { class: "app-reference-failed".into(), detail: format!("the application could not be built / run from intact files: {}", reference.to_string().chars().take(400).collect::<String>()) }),
            Some(refs) => {
                nontrivial = refs.iter().any(|r| r.get("error").is_none());
                *reach.entry("app_reference_successes".into()).or_insert(0) += refs.iter().filter(|r| r.get("error").is_none()).count() as u64;
                for (c, d) in alignment_diffs(w, refs) {
                    v.push(Violation { class: c, detail: d });
                }
                if let Some(e) = got.get("build_error") {
                    let e = e.as_str().unwrap_or("");
                    if hard_fired > 0 {
                        *reach.entry("app_build_failed_after_hard_fault".into()).or_insert(0) += 1;
                    } else if eintr_fired > 0 && e.contains("Interrupted") {
                        *reach.entry("app_build_failed_on_eintr".into()).or_insert(0) += 1;
                    } else {
                        v.push(Violation { class: "app-load-failed".into(), detail: format!("building the application failed although the files are intact and only legal read behaviour was injected: {}", e) });
                    }
                } else if got.get("build_panic").is_some() {
                    // (reported through the panic list)
                } else if let Some(gs) = got.as_array() {
                    *reach.entry(if hard_fired > 0 { "app_built_despite_hard_fault" } else { "app_built_under_legal_faults" }.into()).or_insert(0) += 1;
                    let same = gs.len() == refs.len() && gs.iter().zip(refs.iter()).all(|(a, b)| json_close(a, b, 1e-12));
                    if !same {
                        let first = gs.iter().zip(refs.iter()).find(|(a, b)| !json_close(a, b, 1e-12));
                        let detail = match first {
                            Some((a, b)) => format!("built under faults: {} ;; built from intact reads: {}", canon(a).chars().take(500).collect::<String>(), canon(b).chars().take(500).collect::<String>()),
                            None => format!("{} responses vs {}", gs.len(), refs.len()),
                        };
                        v.push(Violation { class: if hard_fired > 0 { "app-silently-different-after-hard-fault".into() } else { "app-differs".into() }, detail });
                    }
                } else {
                    v.push(Violation { class: "app-run-failed".into(), detail: got.to_string().chars().take(400).collect() });
                }
            }
        }
    }
    let mut put = |k: &str, b: bool| {
        if b {
            *reach.entry(k.to_string()).or_insert(0) += 1;
        }
    };
    put("app_worlds_turn_delay", w.headings.is_some());
    put("app_worlds_road_class", w.road_classes.is_some());
    put("app_worlds_uuid", w.uuid_plugin);
    put("app_worlds_edge_rtree", w.edge_oriented);
    put("app_worlds_vertex_rtree", w.input_plugins.iter().any(|p| p["type"] == json!("vertex_rtree")));
    ChildResult {
        violations: v,
        nontrivial,
        signature: fnv64(&format!("{}|{:?}", serde_json::to_string(&w.edges).unwrap(), out.recorded.faults)),
        reach,
        sample: json!({"seed": case.seed, "family": case.family, "vertices": w.nv(), "edges": w.ne(), "gz": [w.gz_edges, w.gz_vertices, w.gz_tables], "route_format": w.traversal_plugin,
            "turn_delay": w.headings.is_some(), "road_class": w.road_classes.is_some(), "uuid": w.uuid_plugin, "plugins": w.input_plugins,
            "faults": out.recorded.faults.iter().take(6).collect::<Vec<_>>(), "sim_reads": out.stats.sim_reads, "sim_opens": out.stats.sim_opens}),
        stats: Some(out.stats.clone()),
        recorded: Some(out.recorded.clone()),
        harness_error: None,
    }
}

/// family app-rebuild (round 8): an application built from the first network stays alive, the files are replaced
/// by another network at the same paths, and two threads build an application each at the same time. Both must show
/// the second network, the old application still the first - read through the binding accessors.
fn gen_app_rebuild(seed: u64, tier: Tier) -> Case {
    let mut c = gen_app(seed, "app-legal", tier);
    c.family = "app-rebuild".into();
    let mut r = Rng::new(seed ^ fnv64("C15-app-rebuild"));
    // (another world whose edge and vertex files carry the same names: file names depend on the compression flags,
    // and plugin configurations hold them, so a world that matches is drawn rather than patched)
    let mut c2 = gen_app(r.next_u64() >> 12, "app-legal", tier);
    for _ in 0..40 {
        if c2.world.edges_path() == c.world.edges_path() && c2.world.vertices_path() == c.world.vertices_path() {
            break;
        }
        c2 = gen_app(r.next_u64() >> 12, "app-legal", tier);
    }
    let mut w2 = c2.world.clone();
    let batch2 = c2.batches.get(0).cloned().unwrap_or_default();
    if r.chance(0.7) {
        // counts scanned from the files in both configurations (nothing in the configuration tells the networks apart)
        c.world.explicit_counts = false;
        w2.explicit_counts = false;
    }
    c.simcfg.sched = r.pick(&[sim::SchedMode::Random, sim::SchedMode::Pct, sim::SchedMode::PctSync]).clone();
    c.simcfg.p_stay = *r.pick(&[0.5, 0.9, 0.97]);
    c.simcfg.alloc_every = *r.pick(&[0u64, 8, 64]);
    c.simcfg.atomic_every = *r.pick(&[0u64, 1, 5]);
    c.simcfg.pct_depth = r.range(1, 4) as u32;
    c.simcfg.pct_horizon = *r.pick(&[50u64, 500, 5000]);
    c.simcfg.faults = sim::F_SHORT_READ;
    c.simcfg.io_fault_rate = *r.pick(&[0.0, 0.1, 0.5]);
    c.simcfg.max_steps = 3_000_000;
    c.params = json!({"world2": w2, "batch2": batch2, "mtime_variant": r.below(3)});
    c
}

fn run_app_rebuild(case: &Case, fatal_fd: i32) -> ChildResult {
    let out = execute_custom(case, fatal_fd, |case| {
        use crate::scenario::Bind;
        let w = case.world.clone();
        let w2: World = match serde_json::from_value(case.params["world2"].clone()) {
            Ok(x) => x,
            Err(e) => return json!({"harness": e.to_string()}),
        };
        let first = match std::panic::catch_unwind(std::panic::AssertUnwindSafe(|| build_app(&w.config(true)))) {
            Ok(Ok(app)) => Bind { app },
            Ok(Err(e)) => return json!({"first_build_error": e}),
            Err(_) => return json!({"first_build_panic": true}),
        };
        let first_before = graph_api_diffs(&w, &first);
        sim::advance_clock(*[0u64, 1_000_000_000, 3_600_000_000_000].get(case.seed as usize % 3).unwrap());
        let variant = case.params["mtime_variant"].as_u64().unwrap_or(0);
        sim::with(|s| {
            for (p, d) in w2.files() {
                match variant {
                    0 => s.put_file(&p, d),
                    1 => s.put_file_with_mtime(&p, d, crate::sim::REALTIME_EPOCH_NS - 86_400_000_000_000),
                    _ => match s.mtime_of(&p) {
                        Some(t) => s.put_file_with_mtime(&p, d, t),
                        None => s.put_file(&p, d),
                    },
                }
            }
        });
        let cfg2 = w2.config(true);
        let pool = crate::harness::make_pool(2);
        let batch2: Vec<Value> = case.params["batch2"].as_array().cloned().unwrap_or_default();
        let build2 = || -> Value {
            match std::panic::catch_unwind(std::panic::AssertUnwindSafe(|| build_app(&cfg2))) {
                Ok(Ok(app)) => {
                    // the per-edge / per-vertex tables of the new application belong to the new network too: its answers
                    // to a batch are checked for row alignment against the generator's lists (geometries, vertex
                    // identifiers, road classes)
                    let mut d: Vec<String> = match std::panic::catch_unwind(std::panic::AssertUnwindSafe(|| app.run(batch2.clone(), None))) {
                        Ok(Ok(rs)) => alignment_diffs(&w2, &rs.iter().map(by_feature_name).collect::<Vec<_>>()).into_iter().map(|(c, x)| format!("{}: {}", c, x)).collect(),
                        Ok(Err(e)) => vec![format!("run() failed: {}", e)],
                        Err(_) => vec!["run() panicked".to_string()],
                    };
                    d.extend(graph_api_diffs(&w2, &Bind { app }));
                    json!(d)
                }
                Ok(Err(e)) => json!({"build_error": e}),
                Err(_) => json!({"build_panic": true}),
            }
        };
        sim::set_quiet(false);
        let (rb, rc) = pool.install(|| rayon::join(build2, build2));
        sim::set_quiet(true);
        drop(pool);
        let first_after = graph_api_diffs(&w, &first);
        json!({"first_before": first_before, "first_after": first_after, "second": [rb, rc]})
    });
    let mut v = vec![];
    let mut reach: BTreeMap<String, u64> = BTreeMap::new();
    for p in &out.panics {
        v.push(Violation { class: format!("panic@{}", super::c12::panic_class(p).trim_start_matches("panic@")), detail: format!("panic while building: {} at {}", p.message, p.location) });
    }
    let mut nontrivial = false;
    if let Some(val) = &out.value {
        if val.get("harness").is_some() {
            return ChildResult { violations: v, nontrivial: false, signature: 0, reach, sample: val.clone(), stats: Some(out.stats.clone()), recorded: Some(out.recorded.clone()), harness_error: Some(val["harness"].to_string()) };
        }
        if val.get("first_build_error").is_some() || val.get("first_build_panic").is_some() {
            v.push(Violation { class: "app-reference-failed".into(), detail: format!("the application could not be built from intact files: {}", val.to_string().chars().take(300).collect::<String>()) });
        } else {
            nontrivial = true;
            *reach.entry("applications_rebuilt_by_two_threads_after_the_files_were_replaced".into()).or_insert(0) += 1;
            for (k, what) in [("first_before", "the first application"), ("first_after", "the first application, after the files were replaced and two more applications were built,")] {
                if let Some(ds) = val[k].as_array().filter(|d| !d.is_empty()) {
                    v.push(Violation { class: "app-graph-accessors-differ".into(), detail: format!("{} does not show the network it was built from: {:?}", what, ds) });
                }
            }
            for (i, r) in val["second"].as_array().cloned().unwrap_or_default().iter().enumerate() {
                if let Some(e) = r.get("build_error") {
                    v.push(Violation { class: "app-load-failed".into(), detail: format!("application {} of the two built at the same time after the files were replaced failed to build (only short reads were injected): {}", i, e) });
                } else if let Some(ds) = r.as_array().filter(|d| !d.is_empty()) {
                    v.push(Violation { class: "app-graph-stale-after-files-replaced".into(), detail: format!("application {} of the two built at the same time after the files were replaced does not show the network the files describe now: {:?}", i, ds) });
                }
            }
        }
    }
    reach.insert("preemptions".into(), out.stats.preemptions);
    let w = &case.world;
    ChildResult {
        violations: v,
        nontrivial,
        signature: fnv64(&format!("{}|{}", serde_json::to_string(&w.edges).unwrap(), out.stats.sched_hash)),
        reach,
        sample: json!({"seed": case.seed, "family": case.family, "vertices": w.nv(), "edges": w.ne(), "switches": out.stats.switches, "mtime_variant": case.params["mtime_variant"]}),
        stats: Some(out.stats.clone()),
        recorded: Some(out.recorded.clone()),
        harness_error: None,
    }
}

fn run_concurrent(case: &Case, fatal_fd: i32) -> ChildResult {
    let out = execute_custom(case, fatal_fd, |case| {
        let wa = case.world.clone();
        let mut wb = reload_world(&wa, case.params["other_seed"].as_u64().unwrap_or(1));
        wb.subdir = "b/".into();
        wb.gz_members = wa.gz_members;
        sim::with(|s| {
            for (p, d) in wb.files() {
                s.put_file(&p, d);
            }
        });
        let pool = crate::harness::make_pool(2);
        let load = |w: &World| -> Value {
            let cfg = w.config(false);
            let g = DefaultGraphBuilder::build(&cfg["graph"]);
            let sp = SpeedTraversalEngine::new(&w.table_path_pub("speeds"), SpeedUnit::KilometersPerHour, None, None);
            let graph = match &g {
                Ok(g) => json!(compare_graph(w, g)),
                Err(e) => json!({"error": e.to_string()}),
            };
            let speeds = match &sp {
                Ok(e) => {
                    let got: Vec<f64> = e.speed_table.iter().map(|s| s.as_f64()).collect();
                    if got == w.speeds { json!([]) } else { json!([format!("speed table has {} rows but the file lists {}", got.len(), w.speeds.len())]) }
                }
                Err(e) => json!({"error": e.to_string()}),
            };
            json!({"graph": graph, "speeds": speeds, "ne": w.ne()})
        };
        sim::set_quiet(false);
        let (ra, rb) = pool.install(|| rayon::join(|| load(&wa), || load(&wb)));
        sim::set_quiet(true);
        drop(pool);
        json!({"a": ra, "b": rb})
    });
    let mut v = vec![];
    let mut reach: BTreeMap<String, u64> = BTreeMap::new();
    for p in &out.panics {
        v.push(Violation { class: format!("panic@{}", p.location), detail: format!("loader panicked: {} at {}", p.message, p.location) });
    }
    let eintr_fired: u64 = out.stats.faults.get("eintr_read").copied().unwrap_or(0);
    if let Some(val) = &out.value {
        for side in ["a", "b"] {
            for part in ["graph", "speeds"] {
                let x = &val[side][part];
                if let Some(e) = x.get("error") {
                    if eintr_fired > 0 && e.as_str().map_or(false, |m| m.contains("Interrupted")) {
                        *reach.entry("load_failed_on_eintr".into()).or_insert(0) += 1;
                    } else if part == "speeds" && val[side]["ne"].as_u64() == Some(0) {
                        *reach.entry("empty_table_rejected".into()).or_insert(0) += 1;
                    } else {
                        v.push(Violation { class: format!("{}-load-failed", part), detail: format!("[two loads at the same time, network {}] loading failed although its files are intact: {}", side, e) });
                    }
                } else if x.as_array().map_or(false, |d| !d.is_empty()) {
                    v.push(Violation { class: format!("{}-differs", part), detail: format!("[two loads at the same time, network {}] {:?}", side, x) });
                }
            }
        }
        *reach.entry("concurrent_loads".into()).or_insert(0) += 1;
    }
    reach.insert("preemptions".into(), out.stats.preemptions);
    let w = &case.world;
    ChildResult {
        violations: v,
        nontrivial: w.ne() > 0,
        signature: fnv64(&format!("{}|{}", serde_json::to_string(&w.edges).unwrap(), out.stats.sched_hash)),
        reach,
        sample: json!({"seed": case.seed, "family": case.family, "vertices": w.nv(), "edges": w.ne(), "gz": [w.gz_edges, w.gz_vertices, w.gz_tables], "switches": out.stats.switches}),
        stats: Some(out.stats.clone()),
        recorded: Some(out.recorded.clone()),
        harness_error: None,
    }
}

impl Check for C15 {
    fn id(&self) -> &'static str {
        "C15"
    }
    fn level(&self) -> &'static str {
        "fault_enumeration"
    }
    fn families(&self, _tier: Tier) -> Vec<&'static str> {
        vec!["legal", "enumerate", "hard", "app-legal", "legal", "enumerate", "app-hard", "nofault", "hard", "app-hard", "enumerate", "concurrent", "legal", "app-rebuild"]
    }
    fn default_runs(&self, tier: Tier) -> u64 {
        match tier {
            Tier::Quick => 39000,
            Tier::Thorough => 600000,
        }
    }
    fn gen_indexed(&self, base_seed: u64, i: u64, family: &str, family_index: u64, tier: Tier) -> Case {
        if family == "enumerate" {
            return gen_enumerate(base_seed, base_seed.wrapping_add(i), family_index);
        }
        self.gen(base_seed.wrapping_add(i), family, tier)
    }
    fn gen(&self, seed: u64, family: &str, tier: Tier) -> Case {
        if family == "enumerate" {
            return gen_enumerate(seed, seed, seed);
        }
        if family == "app-rebuild" {
            return gen_app_rebuild(seed, tier);
        }
        if family.starts_with("app-") {
            return gen_app(seed, family, tier);
        }
        if family == "concurrent" {
            // two networks whose files carry the same names in two directories, loaded at the same time by two
            // threads of one process (each load must see its own files only)
            let mut c = self.gen(seed ^ 0x51ED, "legal", tier);
            c.family = "concurrent".into();
            let mut r = Rng::new(seed ^ fnv64("C15-concurrent"));
            c.world.subdir = "a/".into();
            c.world.gz_misnamed = false;
            c.params = json!({"other_seed": r.next_u64() >> 12});
            c.simcfg.sched = sim::SchedMode::Random;
            c.simcfg.p_stay = *r.pick(&[0.5, 0.8, 0.95]);
            c.simcfg.alloc_every = *r.pick(&[1u64, 8, 64]);
            c.simcfg.io_fault_rate = *r.pick(&[0.0, 0.05, 0.3]);
            c.simcfg.max_steps = 3_000_000;
            c.workers = 2;
            return c;
        }
        let mut r = Rng::new(seed ^ fnv64("C15"));
        let gp = match tier {
            Tier::Quick => GraphParams { nv: (1, 30), ..Default::default() },
            Tier::Thorough => GraphParams { nv: (1, 120), extra_edge_factor: 3.0, ..Default::default() },
        };
        let mut w = World::gen_graph(&mut r, &gp);
        if r.chance(0.04) && w.nv() >= 2 {
            // a mega hub: several hundred (mostly parallel) edges leaving and entering one vertex
            let hub = r.below(w.nv() as u64) as usize;
            let n_out = r.range(250, 700);
            for k in 0..n_out {
                let other = r.below(w.nv() as u64) as usize;
                let (a, b) = if k % 3 == 0 { (other, hub) } else { (hub, other) };
                w.edges.push((a, b, crate::world::q6(10.0 + r.f64() * 1000.0)));
                w.speeds.push(crate::world::q6(10.0 + r.f64() * 100.0));
                w.grades.push(0.0);
            }
        }
        // coordinates written with far more digits than an f32 holds, a hair beyond the midpoint of two neighbouring
        // f32 values (round 7; a stream of its own)
        let mut r7 = Rng::new(seed ^ fnv64("C15-long-coordinates"));
        if r7.chance(0.15) {
            for v in 0..w.nv() {
                if r7.chance(0.5) {
                    let t = crate::world::just_beyond_f32_midpoint(w.coords[v].0 as f32);
                    w.coords[v].0 = t.parse::<f64>().unwrap_or(w.coords[v].0);
                    w.x_text.insert(v, t);
                }
            }
        }
        w.gz_edges = r.chance(0.5);
        w.gz_vertices = r.chance(0.5);
        w.gz_tables = r.chance(0.5);
        w.gz_misnamed = r.chance(0.15);
        w.text_variant = *r.pick(&[0u8, 0, 0, 1, 2]);
        w.csv_blank_lines = *r.pick(&[0u8, 0, 0, 1, 2]);
        w.gz_members = *r.pick(&[0u8, 0, 0, 2, 3]);
        w.explicit_counts = r.chance(0.4);
        let mut simcfg = sim::SimCfg::default();
        simcfg.sched = sim::SchedMode::Cooperative;
        match family {
            "legal" => {
                simcfg.faults = sim::F_SHORT_READ | sim::F_EINTR_READ;
                simcfg.io_fault_rate = *r.pick(&[0.05, 0.3, 0.9]);
            }
            "hard" => {
                simcfg.faults = sim::F_SHORT_READ | sim::F_EINTR_READ | *r.pick(&[sim::F_EIO_READ, sim::F_TRUNC_READ, sim::F_BITFLIP_READ, sim::F_EOPEN, sim::F_EIO_READ, sim::F_TRUNC_READ]);
                if w.gz_members >= 2 && simcfg.faults & sim::F_TRUNC_READ != 0 {
                    // (a file of several members cut exactly between two of them is a valid, shorter file)
                    simcfg.faults = sim::F_SHORT_READ | sim::F_EINTR_READ | sim::F_EIO_READ;
                }
                simcfg.io_fault_rate = *r.pick(&[0.05, 0.2, 0.5]);
                simcfg.max_hard_faults = 1;
                // truncation and flipped bits are only detectable (and only injected) on gzip streams
                simcfg.trunc_paths = vec![".gz".into()];
            }
            _ => {}
        }
        simcfg.max_steps = 400_000;
        // a history, not just one load: the files are regenerated at the same paths (another network of
        // another size) and loaded again in the same process
        let mut params = if r.chance(0.35) { json!({"reload_seed": r.next_u64() >> 12}) } else { json!({}) };
        if r.chance(0.012) {
            // a size knob: a per-edge table of a megabyte or more (a loader may treat large files differently)
            params["big_table"] = json!({"rows": r.range(150_000, 420_000), "seed": r.next_u64() >> 12});
            // (loaded inside a pool of three simulated workers: schedule them for real)
            simcfg.sched = sim::SchedMode::Random;
            simcfg.p_stay = *r.pick(&[0.5, 0.9]);
            simcfg.alloc_every = *r.pick(&[1u64, 8, 64]);
            simcfg.max_steps = 3_000_000;
        }
        Case { check: "C15".into(), seed, family: family.to_string(), world: w, batches: vec![], workers: 1, run_parallelism: None, simcfg, recorded: None, params }
    }
    fn run(&self, case: &Case, fatal_fd: i32) -> ChildResult {
        if case.family == "app-rebuild" {
            return run_app_rebuild(case, fatal_fd);
        }
        if case.family.starts_with("app-") {
            return run_app(case, fatal_fd);
        }
        if case.family == "concurrent" {
            return run_concurrent(case, fatal_fd);
        }
        let out = execute_custom(case, fatal_fd, |case| {
            let w = &case.world;
            let cfg = w.config(false);
            sim::set_quiet(false);
            let g = DefaultGraphBuilder::build(&cfg["graph"]);
            let sp = SpeedTraversalEngine::new(&w.table_path_pub("speeds"), SpeedUnit::KilometersPerHour, None, None);
            sim::set_quiet(true);
            let graph_diffs = match &g {
                Ok(g) => json!(compare_graph(w, g)),
                Err(e) => json!({"error": e.to_string()}),
            };
            let speed_diffs = match &sp {
                Ok(e) => {
                    let got: Vec<f64> = e.speed_table.iter().map(|s| s.as_f64()).collect();
                    if got == w.speeds {
                        json!([])
                    } else {
                        json!([format!("speed table has {} rows {:?}.. but the file lists {} rows {:?}..", got.len(), got.iter().take(3).collect::<Vec<_>>(), w.speeds.len(), w.speeds.iter().take(3).collect::<Vec<_>>())])
                    }
                }
                Err(e) => json!({"error": e.to_string()}),
            };
            let mut res = json!({"graph": graph_diffs, "speeds": speed_diffs});
            if let Some(bt) = case.params.get("big_table").filter(|b| b.is_object()) {
                let rows = bt["rows"].as_u64().unwrap_or(0) as usize;
                let mut br = Rng::new(bt["seed"].as_u64().unwrap_or(0) ^ fnv64("C15-big"));
                let want: Vec<f64> = (0..rows).map(|_| crate::world::q6(1.0 + br.f64() * 130.0)).collect();
                let mut text = String::with_capacity(rows * 11);
                for x in &want {
                    text.push_str(&format!("{}\n", x));
                }
                let (path, data) = if w.gz_tables && !w.gz_misnamed {
                    use std::io::Write;
                    let mut e = flate2::write::GzEncoder::new(Vec::new(), flate2::Compression::fast());
                    e.write_all(text.as_bytes()).unwrap();
                    ("/sim/bigspeeds.txt.gz", e.finish().unwrap())
                } else {
                    ("/sim/bigspeeds.txt", text.into_bytes())
                };
                let bytes = data.len();
                sim::with(|s| s.put_file(path, data));
                // (inside a simulated pool: a loader that hands rows to worker threads is scheduled by the simulator)
                let pool = crate::harness::make_pool(3);
                sim::set_quiet(false);
                let big = pool.install(|| SpeedTraversalEngine::new(&path, SpeedUnit::KilometersPerHour, None, None));
                sim::set_quiet(true);
                drop(pool);
                res["bigspeeds"] = match &big {
                    Ok(e) => {
                        let got: Vec<f64> = e.speed_table.iter().map(|s| s.as_f64()).collect();
                        if got == want {
                            json!([])
                        } else {
                            let first = got.iter().zip(want.iter()).position(|(a, b)| a != b);
                            let misplaced = got.iter().zip(want.iter()).filter(|(a, b)| a != b).count();
                            json!([format!("table of {} rows ({} bytes): {} rows loaded, {} of them are not the value of their row (first at row {:?})", want.len(), bytes, got.len(), misplaced, first)])
                        }
                    }
                    Err(e) => json!({"error": e.to_string()}),
                };
            }
            if let Some(rs) = case.params.get("reload_seed").and_then(|x| x.as_u64()) {
                let w2 = reload_world(w, rs);
                // the new files are written in place now, or were produced a day ago and are moved into place with
                // their times kept (mv, cp -p, rsync -t), or carry the very time stamp of the files they replace (a
                // file system with coarse time stamps)
                sim::with(|s| {
                    for (p, d) in w2.files() {
                        match rs % 3 {
                            0 => s.put_file(&p, d),
                            1 => s.put_file_with_mtime(&p, d, crate::sim::REALTIME_EPOCH_NS - 86_400_000_000_000),
                            _ => {
                                let t = s.mtime_of(&p);
                                match t {
                                    Some(t) => s.put_file_with_mtime(&p, d, t),
                                    None => s.put_file(&p, d),
                                }
                            }
                        }
                    }
                });
                let cfg2 = w2.config(false);
                sim::set_quiet(false);
                let g2 = DefaultGraphBuilder::build(&cfg2["graph"]);
                let sp2 = SpeedTraversalEngine::new(&w2.table_path_pub("speeds"), SpeedUnit::KilometersPerHour, None, None);
                sim::set_quiet(true);
                res["graph2"] = match &g2 {
                    Ok(g) => json!(compare_graph(&w2, g)),
                    Err(e) => json!({"error": e.to_string()}),
                };
                res["speeds2"] = match &sp2 {
                    Ok(e) => {
                        let got: Vec<f64> = e.speed_table.iter().map(|s| s.as_f64()).collect();
                        if got == w2.speeds { json!([]) } else { json!([format!("speed table has {} rows but the regenerated file lists {}", got.len(), w2.speeds.len())]) }
                    }
                    Err(e) => json!({"error": e.to_string()}),
                };
                res["ne2"] = json!(w2.ne());
            }
            res
        });
        let mut v = vec![];
        let mut reach: BTreeMap<String, u64> = BTreeMap::new();
        for p in &out.panics {
            v.push(Violation { class: format!("panic@{}", p.location), detail: format!("loader panicked: {} at {}", p.message, p.location) });
        }
        let hard_fired: u64 = out.stats.faults.iter().filter(|(k, _)| k.starts_with("eio") || k.starts_with("trunc") || k.starts_with("bitflip") || k.starts_with("eopen")).map(|(_, n)| *n).sum();
        let eintr_fired: u64 = out.stats.faults.get("eintr_read").copied().unwrap_or(0);
        let empty_ok = case.world.ne() == 0; // a speed table with no rows is rejected by design ("parsed 0 entries")
        if let Some(val) = &out.value {
            let reloaded = val.get("graph2").is_some();
            if reloaded {
                *reach.entry("reloaded_after_regeneration".into()).or_insert(0) += 1;
            }
            if val.get("bigspeeds").is_some() {
                *reach.entry("tables_of_a_megabyte_or_more".into()).or_insert(0) += 1;
            }
            for part_key in ["graph", "speeds", "graph2", "speeds2", "bigspeeds"] {
                if (!reloaded && part_key.ends_with('2')) || val.get(part_key).is_none() {
                    continue;
                }
                let part = if part_key == "bigspeeds" { "speeds" } else { part_key.trim_end_matches('2') };
                let empty_ok = if part_key.ends_with('2') { val["ne2"].as_u64() == Some(0) } else { empty_ok };
                let x = &val[part_key];
                if let Some(e) = x.get("error") {
                    if hard_fired > 0 {
                        *reach.entry("load_failed_after_hard_fault".into()).or_insert(0) += 1;
                    } else if eintr_fired > 0 && e.as_str().map_or(false, |m| m.contains("Interrupted")) {
                        // the csv crate does not retry an interrupted read: the load fails cleanly with the
                        // OS error. The property speaks about networks that *are* loaded, so this is accepted.
                        *reach.entry("load_failed_on_eintr".into()).or_insert(0) += 1;
                    } else if case.world.gz_misnamed && !case.world.explicit_counts && part == "graph" && e.as_str().map_or(false, |m| m.contains("UTF-8")) {
                        // a gzip file without the .gz suffix is sniffed when read but not when its rows are counted:
                        // with scanned counts the load is rejected (cleanly) rather than loaded
                        *reach.entry("misnamed_gz_rejected".into()).or_insert(0) += 1;
                    } else if part == "speeds" && empty_ok {
                        *reach.entry("empty_table_rejected".into()).or_insert(0) += 1;
                    } else {
                        v.push(Violation { class: format!("{}-load-failed", part), detail: format!("loading failed although the files are intact and only legal read behaviour was injected: {}", e) });
                    }
                } else if let Some(diffs) = x.as_array() {
                    if !diffs.is_empty() {
                        let class = if hard_fired > 0 { format!("{}-silently-different-after-hard-fault", part) } else { format!("{}-differs", part) };
                        v.push(Violation { class, detail: format!("{}{:?}", if part_key.ends_with('2') { "[second load, after the files were regenerated at the same paths] " } else { "" }, diffs) });
                    } else if hard_fired > 0 {
                        *reach.entry("exact_despite_hard_fault".into()).or_insert(0) += 1;
                    }
                }
            }
        }
        let w = &case.world;
        reach.insert("gz_files".into(), (w.gz_edges as u64) + (w.gz_vertices as u64) + (w.gz_tables as u64));
        reach.insert("degree_gt4".into(), (0..w.nv()).filter(|v| w.edges.iter().filter(|e| e.0 == *v).count() > 4).count() as u64);
        reach.insert("degree_gt256".into(), (0..w.nv()).filter(|v| w.edges.iter().filter(|e| e.0 == *v).count() > 256).count() as u64);
        reach.insert("scanned_counts".into(), (!w.explicit_counts) as u64);
        reach.insert("misnamed_gz".into(), w.gz_misnamed as u64);
        if case.family == "enumerate" {
            let fired = out.stats.faults.values().sum::<u64>() > 0;
            reach.insert(if fired { "enumerated_positions_fired".into() } else { "enumerated_positions_beyond_last_read".into() }, 1);
            if fired && case.params["read_index"].as_u64() == Some(ENUM_GROUP / ENUM_KINDS.len() as u64 - 1) {
                reach.insert("enumeration_incomplete_worlds".into(), 1);
            }
        }
        ChildResult {
            violations: v,
            nontrivial: w.ne() > 0,
            signature: fnv64(&format!("{}|{:?}", serde_json::to_string(&w.edges).unwrap(), out.recorded.faults)),
            reach,
            sample: json!({"seed": case.seed, "family": case.family, "vertices": w.nv(), "edges": w.ne(), "gz": [w.gz_edges, w.gz_vertices, w.gz_tables], "misnamed": w.gz_misnamed, "text_variant": w.text_variant,
                "vertex_cols": w.vertex_cols, "explicit_counts": w.explicit_counts, "faults": out.recorded.faults.iter().take(6).collect::<Vec<_>>(), "sim_reads": out.stats.sim_reads}),
            stats: Some(out.stats.clone()),
            recorded: Some(out.recorded.clone()),
            harness_error: None,
        }
    }
    fn rule(&self) -> String {
        "each evaluation = one generated network (1-120 vertices, parallel edges, self loops, isolated vertices, hubs of degree >4, vertex file with shuffled / extra columns, explicit or scanned counts, every file plain or gzip, sometimes a gzip file without the .gz suffix; LF, CRLF or no final newline) written to the simulated disk and loaded through DefaultGraphBuilder::build and SpeedTraversalEngine::new while the simulator injects faults at read() calls: family legal = short reads down to 1 byte + EINTR at a per-run rate up to 0.9 (graph must be exact), family hard = one EIO (one-shot or sticky) or one truncated gzip stream (load must fail or be exact; never hang, panic or differ silently), family nofault = none; family enumerate = worlds of 1-7 vertices shared by groups of 224 consecutive runs of the family, in which every read index 0..31 is faulted with each of seven fault kinds (1-byte short read, 3-byte short read, EINTR, one-shot EIO, sticky EIO, two flipped bits on gzip files): a complete enumeration of single-fault positions for every world whose load needs at most 32 reads and whose group is completed within the run's budget (reach probes enumerated_positions_fired / enumerated_positions_beyond_last_read count both sides). In the other families the position of the faulted read is drawn per run. non-trivial = at least one edge; distinct = distinct (edge list, fault list). Since round 2/3: families app-legal / app-hard = the whole application built from its files (edge/vertex lists, speed table, edge headings, road classes, geometries, vertex identifiers, matching-plugin copies) under read / open faults and compared with the fault-free build, plus row-alignment checks; hard faults also a failing open and one flipped bit in a gzip stream; one direct run in three regenerates the files at the same paths and loads again in the same process; vertex files with free-text extra columns (values starting with #, quoted commas / quotes / line breaks) and blank lines; one direct run in eighty loads a table of 150k-420k rows inside a pool of three simulated workers; gzip files of 1-3 members; family concurrent = two networks with the same file names in two directories loaded at the same time by two simulated threads Round 7: x coordinates written with some twenty digits a hair beyond the midpoint of two neighbouring f32 values (the listed coordinate is the f32 nearest to the decimal as written). Round 8: the application families read the graph through the binding accessors (CompassAppBindings::graph_*: origin, destination, distance in three units, outgoing and incoming edge ids of every vertex, one index beyond the last); the simulated disk keeps modification times - regenerated files are written now, moved into place with older times, or carry the time stamp of the file they replace; family app-rebuild = an application built from the first network stays alive, the files are replaced by another network under the same names, and two threads build an application each at the same time under a seeded schedule and short reads (both must show the second network, the old application the first).".into()
    }
    fn assumptions(&self) -> Vec<String> {
        vec![
            "oracle is the generator's own edge/vertex/speed lists; f64 fields compared exactly, coordinates as f32".into(),
            "truncation is injected only on gzip files: a truncated plain-text file is indistinguishable from a shorter valid file".into(),
            "single thread: the schedule plays no role here, only the read-fault sequence".into(),
        ]
    }
    fn judge_abnormal(&self, _case: &Case, what: &str) -> Option<Violation> {
        if what.contains("budget") {
            Some(Violation { class: "unbounded".into(), detail: format!("loading does not terminate: {}", what) })
        } else if what.contains("deadlock") {
            Some(Violation { class: "deadlock".into(), detail: what.into() })
        } else {
            Some(Violation { class: format!("abort:{}", what), detail: what.into() })
        }
    }
}
