//! C10 — search limits bound the work and never alter an answer, only stop it.
//!
//! Simulation decides the runtime limit: the clock is behind the simulator's seam, so "the budget is
//! exhausted at the k-th scheduled check" (a clock jump, or a stall of one worker while the clock
//! runs) is an exact, replayable event. Harness-side wrappers around the frontier model (a trait
//! the code already has) report which vertex is expanded when; clock reads and expansions form one
//! ordered per-thread history which a small reference model of the limit walks: every scheduled
//! check must happen, must fire exactly when the elapsed time it was given exceeds the limit, and
//! nothing may be expanded afterwards. Iteration limits are walked the same way, and so is the
//! solution-size limit, against a model of the search tree built from the admitted edges of the
//! expansion events (those two parts are an ordinary input sweep executed inside the simulator).

use super::common::*;
use crate::driver::{fnv64, Check, ChildResult, Tier, Violation};
use crate::oracle::*;
use crate::scenario::{execute, Case, ExecOpts, Instrument, Obs};
use crate::sim::{self, ProbeEv, Rng, PROBE_BUILD, PROBE_EXPAND};
use crate::world::{GraphParams, World};
use routee_compass::app::compass::compass_app::CompassApp;
use routee_compass_core::model::frontier::{frontier_model::FrontierModel, frontier_model_error::FrontierModelError, frontier_model_service::FrontierModelService};
use routee_compass_core::model::network::{Edge, Vertex};
use routee_compass_core::model::state::state_feature::StateFeature;
use routee_compass_core::model::traversal::{traversal_model::TraversalModel, traversal_model_error::TraversalModelError, traversal_model_service::TraversalModelService};
use routee_compass_core::model::state::state_model::StateModel;
use routee_compass_core::model::traversal::state::state_variable::StateVar;
use serde_json::{json, Value};
use std::collections::BTreeMap;
use std::sync::Arc;

pub struct C10;

/// bit of an expansion event's second argument that says "the frontier model admitted this edge"
const ADMITTED_BIT: u32 = 62;
fn ev_edge(e: &ProbeEv) -> usize {
    (e.b & ((1u64 << ADMITTED_BIT) - 1)) as usize
}
fn ev_admitted(e: &ProbeEv) -> bool {
    e.b >> ADMITTED_BIT & 1 == 1
}

struct ProbeFrontierService {
    inner: Arc<dyn FrontierModelService>,
}
struct ProbeFrontier {
    inner: Arc<dyn FrontierModel>,
}
impl FrontierModelService for ProbeFrontierService {
    fn build(&self, query: &Value, state_model: Arc<StateModel>) -> Result<Arc<dyn FrontierModel>, FrontierModelError> {
        let qid = query.get("_qid").and_then(|q| q.as_u64()).unwrap_or(u64::MAX);
        let inner = self.inner.build(query, state_model)?;
        sim::probe(PROBE_BUILD, qid, 0);
        Ok(Arc::new(ProbeFrontier { inner }))
    }
}
impl FrontierModel for ProbeFrontier {
    fn valid_frontier(&self, edge: &Edge, state: &[StateVar], previous_edge: Option<&Edge>, state_model: &StateModel) -> Result<bool, FrontierModelError> {
        // (the inner model is a pure table lookup; asked first so that the event can say whether the edge
        // was admitted: admitted edges are what makes the search tree grow)
        let r = self.inner.valid_frontier(edge, state, previous_edge, state_model);
        let admitted = matches!(r, Ok(true)) as u64;
        sim::probe(PROBE_EXPAND, edge.src_vertex_id.0 as u64, edge.edge_id.0 as u64 | (admitted << ADMITTED_BIT));
        r
    }
}

/// harness-side wrapper around the traversal model (a trait the code already has): reports every call of the
/// cost estimate (origin vertex, destination vertex). A search asks for one estimate before it reads its start
/// time, which is how the history of a k-shortest-paths query is split into its sub-searches (family yens).
struct ProbeTraversalService {
    inner: Arc<dyn TraversalModelService>,
}
struct ProbeTraversal {
    inner: Arc<dyn TraversalModel>,
}
impl TraversalModelService for ProbeTraversalService {
    fn build(&self, query: &Value) -> Result<Arc<dyn TraversalModel>, TraversalModelError> {
        Ok(Arc::new(ProbeTraversal { inner: self.inner.build(query)? }))
    }
}
impl TraversalModel for ProbeTraversal {
    fn state_features(&self) -> Vec<(String, StateFeature)> {
        self.inner.state_features()
    }
    fn traverse_edge(&self, trajectory: (&Vertex, &Edge, &Vertex), state: &mut Vec<StateVar>, state_model: &StateModel) -> Result<(), TraversalModelError> {
        self.inner.traverse_edge(trajectory, state, state_model)
    }
    fn estimate_traversal(&self, od: (&Vertex, &Vertex), state: &mut Vec<StateVar>, state_model: &StateModel) -> Result<(), TraversalModelError> {
        sim::probe(sim::PROBE_ESTIMATE, od.0.vertex_id.0 as u64, od.1.vertex_id.0 as u64);
        self.inner.estimate_traversal(od, state, state_model)
    }
}

/// an output plugin of the harness (a trait the code already has), first in the list: marks "the search of
/// this query has returned successfully" in the event history (output plugins are not run for failed searches)
struct SearchEndMarker;
impl routee_compass::plugin::output::output_plugin::OutputPlugin for SearchEndMarker {
    fn process(
        &self,
        output: &mut Value,
        _result: &Result<(routee_compass::app::search::search_app_result::SearchAppResult, routee_compass_core::algorithm::search::search_instance::SearchInstance), routee_compass::app::compass::compass_app_error::CompassAppError>,
    ) -> Result<(), routee_compass::plugin::output::output_plugin_error::OutputPluginError> {
        let qid = output.get("request").and_then(|r| r.get("_qid")).and_then(|q| q.as_u64()).unwrap_or(u64::MAX);
        sim::probe(sim::PROBE_SEARCH_END, qid, 0);
        Ok(())
    }
}

pub struct InstallProbes {
    /// also report cost-estimate calls (family yens)
    pub estimates: bool,
}
impl Instrument for InstallProbes {
    fn after_build(&mut self, app: &mut CompassApp, _reference: bool) {
        let inner = app.search_app.frontier_model_service.clone();
        app.search_app.frontier_model_service = Arc::new(ProbeFrontierService { inner });
        if self.estimates {
            let inner = app.search_app.traversal_model_service.clone();
            app.search_app.traversal_model_service = Arc::new(ProbeTraversalService { inner });
        }
        app.output_plugins.insert(0, Arc::new(SearchEndMarker));
    }
    fn before_run(&mut self, batch_idx: usize) {
        // marks where the explored execution starts in the event history
        sim::probe(sim::PROBE_DONE, batch_idx as u64, 0);
    }
}

#[derive(Clone, Debug, Default)]
struct Limits {
    runtime: Option<(u64, u64)>, // limit ns, frequency
    /// number of `combined` models the runtime model is nested in (each level re-evaluates it once more
    /// while the termination is being explained)
    runtime_depth: u32,
    iterations: Option<u64>,
    size: Option<u64>,
    /// every runtime model of the configuration in evaluation (depth-first) order: (limit ns, frequency, depth).
    /// `runtime` above is the first of them, `iterations` / `size` the tightest of their kind.
    runtimes: Vec<(u64, u64, u32)>,
}

fn parse_hms(s: &str) -> u64 {
    let p: Vec<u64> = s.split(':').map(|x| x.parse().unwrap_or(0)).collect();
    (p[0] * 3600 + p[1] * 60 + p[2]) * 1_000_000_000
}

fn parse_limits(t: &Value, out: &mut Limits) {
    parse_limits_at(t, out, 0)
}
fn parse_limits_at(t: &Value, out: &mut Limits, depth: u32) {
    match t["type"].as_str().unwrap_or("") {
        "query_runtime" => {
            let m = (parse_hms(t["limit"].as_str().unwrap_or("0:00:00")), t["frequency"].as_u64().unwrap_or(1));
            if out.runtime.is_none() {
                out.runtime = Some(m);
                out.runtime_depth = depth;
            }
            out.runtimes.push((m.0, m.1, depth));
        }
        "iterations" => {
            let l = t["limit"].as_u64().unwrap_or(0);
            out.iterations = Some(out.iterations.map_or(l, |x| x.min(l)));
        }
        "solution_size" => {
            let l = t["limit"].as_u64().unwrap_or(0);
            out.size = Some(out.size.map_or(l, |x| x.min(l)));
        }
        "combined" => {
            for m in t["models"].as_array().cloned().unwrap_or_default() {
                parse_limits_at(&m, out, depth + 1);
            }
        }
        _ => {}
    }
}

fn fmt_hms(ns: u64) -> String {
    let s = ns / 1_000_000_000;
    format!("{}:{:02}:{:02}", s / 3600, (s % 3600) / 60, s % 60)
}

fn gen(seed: u64, family: &str, tier: Tier) -> Case {
    let mut r = Rng::new(seed ^ fnv64("C10"));
    let mut gp = GraphParams { p_no_dead_ends: if family == "yens" { 1.0 } else if family == "deadends" { 0.0 } else { 0.8 }, p_disconnected: if family == "yens" { 0.0 } else { 0.25 }, ..graph_params(tier) };
    // family reopen (round 7): small dense networks whose distance estimate overshoots wildly (every edge far
    // shorter than the straight line, estimate scaled up): the search re-opens vertices again and again and takes
    // more loop turns than the network has vertices - under iteration limits around that number
    let reopen = family == "reopen";
    let family = if reopen { "iterations" } else { family };
    if reopen {
        gp = GraphParams { nv: (5, 10), extra_edge_factor: 4.0, p_disconnected: 0.0, p_no_dead_ends: 1.0 };
    }
    let mut w = World::gen_graph(&mut r, &gp);
    if family == "deadends" {
        // about a third of the vertices lose every outgoing edge
        let dead: Vec<usize> = (0..w.nv()).filter(|_| r.chance(0.35)).collect();
        let keep: Vec<bool> = w.edges.iter().map(|e| !dead.contains(&e.0)).collect();
        if keep.iter().filter(|k| **k).count() >= 2 {
            let mut it = keep.iter();
            w.edges.retain(|_| *it.next().unwrap());
            let mut it = keep.iter();
            w.speeds.retain(|_| *it.next().unwrap());
            let mut it = keep.iter();
            w.grades.retain(|_| *it.next().unwrap());
        }
    }
    gen_traversal(&mut r, &mut w);
    gen_algorithm(&mut r, &mut w, false, false);
    w.ref_unlimited = true;
    w.input_plugins = vec![];
    w.parallelism = r.range(1, 6) as usize;
    w.persist = true;
    w.out = None;
    let limit_s = *r.pick(&[0u64, 1, 1, 2, 60]);
    let freq = *r.pick(&[1u64, 1, 2, 3, 5, 8]);
    let runtime = json!({"type": "query_runtime", "limit": fmt_hms(limit_s * 1_000_000_000), "frequency": freq});
    // (round 7: limits around the number of vertices as well - a search with an inconsistent estimate re-opens
    // vertices and takes more turns than the network has vertices - drawn from a stream of their own)
    let mut r7 = Rng::new(seed ^ fnv64("C10-limits-around-n"));
    let around_n = r7.chance(0.35) || reopen;
    let nv = w.nv() as u64;
    let iters = json!({"type": "iterations", "limit": if r.chance(0.05) { *r.pick(&[1u64 << 40, i64::MAX as u64]) } else if around_n { let x = r.below(14); let _ = x; nv.saturating_sub(1) + r7.below(nv + 4) } else { r.below(14) }});
    if (family == "iterations" || family == "combined" || family == "size") && (reopen || r7.chance(0.5)) {
        // an estimate scaled up (weight_factor above 1) is no lower bound any more: vertices are re-opened
        w.algorithm = json!({"type": "a*", "weight_factor": *r7.pick(&[1.0, 1.5, 3.0, 10.0])});
        // ... and so do edges that are shorter than the straight line between their ends (survey errors, tunnels
        // recorded by their horizontal projection): the distance estimate overshoots
        if reopen {
            w.algorithm = json!({"type": "a*", "weight_factor": *r7.pick(&[1.0, 3.0, 10.0, 100.0])});
        }
        for e in w.edges.iter_mut() {
            if reopen || r7.chance(0.5) {
                e.2 = crate::world::q6(e.2 * (0.02 + 0.3 * r7.f64()));
            }
        }
    }
    let size = json!({"type": "solution_size", "limit": if r.chance(0.05) { *r.pick(&[1u64 << 40, i64::MAX as u64]) } else { r.below(14) }});
    if family == "ksp" {
        // two sub-searches per query (forward, reverse), each with a budget of its own; no scheduled
        // check other than the one at loop turn 0
        w.algorithm = json!({"type": "ksp_single_via", "k": r.range(1, 3), "underlying": if r.chance(0.5) { json!({"type": "dijkstra"}) } else { json!({"type": "a*"}) }});
    }
    if family == "yens" {
        // Yen's algorithm: one shortest-path search, then one spur search per spur vertex, every one under the
        // same iteration limit. (A similarity threshold: with the default accept-all function no pass ever
        // accepts a candidate, which is a recorded finding.)
        w.algorithm = json!({"type": "yens", "k": r.range(2, 3), "underlying": if r.chance(0.5) { json!({"type": "dijkstra"}) } else { json!({"type": "a*"}) },
            "similarity": {"type": "edge_id_cosine_similarity", "threshold": many_digits(&mut r, 0.5, 0.99)}});
    }
    let runtime = if family == "ksp" && r.chance(0.3) { json!({"type": "query_runtime", "limit": fmt_hms(limit_s.max(1) * 1_000_000_000), "frequency": 100000}) } else { runtime };
    w.termination = match family {
        "ksp" => match r.below(5) {
            0 => iters.clone(),
            1 => {
                let mut ms = vec![runtime, iters.clone()];
                r.shuffle(&mut ms);
                json!({"type": "combined", "models": ms})
            }
            _ => runtime,
        },
        "runtime" => runtime,
        "edge" => {
            if r.chance(0.5) {
                runtime
            } else {
                let mut ms = vec![runtime, iters.clone()];
                r.shuffle(&mut ms);
                json!({"type": "combined", "models": ms})
            }
        }
        "iterations" => iters,
        // dead-end vertices (nothing to expand when popped) under an iteration limit, with a runtime check at
        // every loop turn so that the clock reads count the turns
        "deadends" => {
            let mut ms = vec![iters.clone(), json!({"type": "query_runtime", "limit": "0:01:00", "frequency": 1})];
            r.shuffle(&mut ms);
            json!({"type": "combined", "models": ms})
        }
        // (round 6: every limit kind, not only iterations - each sub-search has a budget of its own)
        "yens" => {
            let it = json!({"type": "iterations", "limit": r.range(1, 16)});
            let sz = json!({"type": "solution_size", "limit": r.range(1, 14)});
            match r.below(6) {
                0 | 1 => it,
                2 => runtime,
                3 => {
                    let mut ms = vec![runtime, it];
                    r.shuffle(&mut ms);
                    json!({"type": "combined", "models": ms})
                }
                4 => sz,
                _ => {
                    let mut ms = vec![runtime, sz];
                    if r.chance(0.5) {
                        ms.push(it);
                    }
                    r.shuffle(&mut ms);
                    json!({"type": "combined", "models": ms})
                }
            }
        }
        "size" => size,
        _ => {
            let mut ms = vec![runtime];
            if r.chance(0.6) {
                ms.push(iters);
            }
            if r.chance(0.4) {
                ms.push(size);
            }
            // the same kind of limit may be listed more than once (the tightest one counts; every runtime model
            // keeps its own check schedule), and a limit may be astronomically large ("no limit")
            if r.chance(0.3) {
                let other_s = *r.pick(&[0u64, 1, 2, 3, 60]);
                ms.push(json!({"type": "query_runtime", "limit": fmt_hms(other_s * 1_000_000_000), "frequency": *r.pick(&[1u64, 2, 3, 7, 100000])}));
            }
            if r.chance(0.2) {
                let small = r.below(14);
                ms.push(json!({"type": "iterations", "limit": *r.pick(&[small, 1 << 40, i64::MAX as u64])}));
            }
            if r.chance(0.2) {
                let small = r.below(14);
                ms.push(json!({"type": "solution_size", "limit": *r.pick(&[small, 1 << 40, i64::MAX as u64])}));
            }
            r.shuffle(&mut ms);
            // combined models may be nested (the builder supports it): wrap a prefix of the list once or twice
            let mut nestings = 0;
            while ms.len() >= 1 && nestings < 3 && r.chance(0.35) {
                let k = r.range(1, ms.len() as u64) as usize;
                let inner: Vec<Value> = ms.drain(0..k).collect();
                ms.insert(r.below(ms.len() as u64 + 1) as usize, json!({"type": "combined", "models": inner}));
                nestings += 1;
            }
            json!({"type": "combined", "models": ms})
        }
    };
    // round 8 (a stream of its own): single-via k-shortest-paths under a solution-size limit, alone or beside an
    // iteration limit - both sub-searches have a tree of their own. (Not walked turn by turn: judged on the outcome.)
    if family == "ksp" {
        let mut r8 = Rng::new(seed ^ fnv64("C10-ksp-size"));
        if r8.chance(0.25) {
            let sz = json!({"type": "solution_size", "limit": r8.below(14)});
            w.termination = if r8.chance(0.5) { sz } else { json!({"type": "combined", "models": [sz, {"type": "iterations", "limit": r8.below(14)}]}) };
        }
    }
    let pc = PluginChoice { override_heavy: false, grid: false, lb: None, inject: false, rtree: false, edge_rtree: false };
    let nq = r.range(1, 10) as usize;
    let mut batch = vec![];
    let edge_family = family == "edge";
    w.edge_oriented = edge_family;
    for qid in 0..nq {
        let (mut q, _) = gen_query(&mut r, &w, &pc, qid, false);
        if family == "deadends" && r.chance(0.3) {
            if let Some(m) = q.as_object_mut() {
                m.remove("destination_vertex"); // a tree search pops every reachable vertex, dead ends included
            }
        }
        if family == "yens" {
            // Yen's algorithm only gets past its two recorded defects when the best route has three or more
            // edges: choose pairs that are at least three hops apart (when the network has any)
            let hops = |from: usize| -> Vec<usize> {
                let mut d = vec![usize::MAX; w.nv()];
                d[from] = 0;
                let mut q = std::collections::VecDeque::from([from]);
                while let Some(x) = q.pop_front() {
                    for e in w.edges.iter().filter(|e| e.0 == x) {
                        if d[e.1] == usize::MAX {
                            d[e.1] = d[x] + 1;
                            q.push_back(e.1);
                        }
                    }
                }
                d
            };
            let mut pairs = vec![];
            for o in 0..w.nv() {
                for (d, h) in hops(o).into_iter().enumerate() {
                    if h != usize::MAX && h >= 3 {
                        pairs.push((o, d));
                    }
                }
            }
            if !pairs.is_empty() {
                let (o, d) = *r.pick(&pairs);
                q["origin_vertex"] = json!(o);
                q["destination_vertex"] = json!(d);
            }
        }
        if edge_family {
            // the edge-oriented wrapper runs the same search between the inner ends of the two edges
            let ne = w.ne().max(1) as u64;
            q["origin_edge"] = json!(r.below(ne));
            q["destination_edge"] = json!(r.below(ne));
        }
        batch.push(q);
    }
    let mut simcfg = gen_simcfg(&mut r);
    simcfg.clock_tick_ns = 1_000;
    if family == "yens" {
        simcfg.max_steps = 400_000;
        simcfg.max_alloc_bytes = 48 << 20;
    }
    if family != "iterations" && family != "size" && (family != "yens" || w.termination.to_string().contains("query_runtime")) {
        simcfg.faults = match r.below(3) {
            0 => sim::F_CLOCK_JUMP,
            1 => sim::F_THREAD_STALL,
            _ => sim::F_CLOCK_JUMP | sim::F_THREAD_STALL,
        };
        simcfg.clock_fault_rate = *r.pick(&[0.0, 0.01, 0.05, 0.2]);
        simcfg.clock_jump_ns = limit_s.max(1) * 1_000_000_000 * *r.pick(&[1u64, 2]) + r.below(1000);
    }
    // round 8 (a stream of its own): a plain runtime limit may be configured without naming its type
    if w.termination["type"] == json!("query_runtime") && Rng::new(seed ^ fnv64("C10-partial-termination")).chance(0.3) {
        w.termination_partial = true;
    }
    let w_termination_text = w.termination.to_string();
    let algo_text = w.algorithm.to_string();
    Case {
        check: "C10".into(),
        seed,
        family: if reopen { "reopen".to_string() } else { family.to_string() },
        world: w,
        batches: vec![batch],
        workers: r.range(1, 5) as usize,
        run_parallelism: None,
        simcfg,
        recorded: None,
        params: {
            // round 8 (a stream of its own): counting limits only - outcomes do not depend on the clock - and a plain
            // search: the application is built again 2-5 times in this process, each time after one with generous
            // limits was built, used and dropped
            let mut r8 = Rng::new(seed ^ fnv64("C10-reload"));
            let t = w_termination_text;
            if !t.contains("query_runtime") && !algo_text.contains("ksp") && !algo_text.contains("yens") && r8.chance(0.35) {
                json!({"reload_rounds": r8.range(2, 5)})
            } else {
                Value::Null
            }
        },
    }
}

const K_MONO: u32 = 100 + libc::CLOCK_MONOTONIC as u32;

/// expansions of the isolated, unlimited run of each query (number of loop turns that expanded a vertex)
fn reference_expansions(obs: &Obs) -> BTreeMap<u64, u64> {
    // reference runs happen first, on the first pool's single worker; the explored phase starts at the first
    // event logged by a thread id above that worker. Simpler: segments are keyed by BUILD events, and the
    // reference segment of a qid is the first one in history.
    let mut out = BTreeMap::new();
    let mut cur: BTreeMap<usize, (u64, u64, u64)> = BTreeMap::new(); // tid -> (qid, groups, last src)
    for e in &obs.probes {
        if e.kind == sim::PROBE_DONE {
            break;
        }
        match e.kind {
            PROBE_BUILD => {
                if let Some((q, g, _)) = cur.remove(&e.tid) {
                    out.entry(q).or_insert(g);
                }
                cur.insert(e.tid, (e.a, 0, u64::MAX));
            }
            PROBE_EXPAND => {
                if let Some(c) = cur.get_mut(&e.tid) {
                    if c.2 != e.a {
                        c.1 += 1;
                        c.2 = e.a;
                    }
                }
            }
            _ => {}
        }
    }
    for (_, (q, g, _)) in cur {
        out.entry(q).or_insert(g);
    }
    out
}

struct Segment<'a> {
    qid: u64,
    events: Vec<&'a ProbeEv>,
}

/// per-thread segments of the explored execution: everything a thread does from one BUILD to the next
fn explored_segments<'a>(obs: &'a Obs) -> Vec<Segment<'a>> {
    let mut segs: Vec<Segment> = vec![];
    let mut open: BTreeMap<usize, usize> = BTreeMap::new();
    let mut explored = false;
    for e in &obs.probes {
        if e.kind == sim::PROBE_DONE {
            explored = true;
            continue;
        }
        if !explored {
            continue;
        }
        if e.kind == PROBE_BUILD {
            segs.push(Segment { qid: e.a, events: vec![] });
            open.insert(e.tid, segs.len() - 1);
        } else if let Some(i) = open.get(&e.tid) {
            segs[*i].events.push(e);
        }
    }
    segs
}

thread_local! {
    /// reach probe: loop turns that expanded nothing, inferred from the clock reads
    static DEAD_END_TURNS: std::cell::Cell<u64> = const { std::cell::Cell::new(0) };
}

#[derive(Debug, PartialEq)]
enum Predicted {
    /// stopped by these limits
    Terminated(Vec<&'static str>),
    /// ran to its natural end: must equal the unlimited result
    Completed,
    /// the walk could not decide (dead ends in the network, or a size limit may have fired)
    Unknown,
}

/// reference model of the limits, fed the very clock values and expansions the search saw
fn walk(seg: &Segment, lim: &Limits, exact: bool, tree_key: Option<&dyn Fn(&ProbeEv) -> Option<u64>>) -> Result<(Predicted, u64), String> {
    // events up to the "search returned" marker, when there is one (successful searches only): then every
    // monotonic read in what remains belongs to the search
    let end = seg.events.iter().position(|e| e.kind == sim::PROBE_SEARCH_END);
    let ev = &seg.events[..end.unwrap_or(seg.events.len())];
    walk_from(ev, 0, lim, exact, tree_key, &|e: &ProbeEv| e.a, Some(end.is_some())).map(|(p, t, _)| (p, t))
}

thread_local! {
    /// size of the search tree as the reference model saw it when the last walk ended (None: not modelled)
    static LAST_TREE: std::cell::Cell<Option<u64>> = const { std::cell::Cell::new(None) };
}

/// walks one search starting at `pos0`; `key` names the vertex an expansion call belongs to (the source
/// of the edge in a forward search, its destination in a reverse search). Also returns the position
/// after the last event of this search.
/// `tree_key`: the reference model of the search tree. The tree gains an entry exactly when an admitted edge
/// leads to a vertex (other than the search's source) that has no entry yet - the first label of a vertex
/// always improves on "none" - and never loses one, so its size at every loop turn is the number of distinct
/// such vertices among the expansion events so far. The function names that vertex for an admitted edge.
/// None: the tree is not modelled (a configured size limit then makes the natural end undecidable).
/// `dense`: None = never infer loop turns from clock reads; Some(closed) = with a runtime check at every
/// loop turn, a monotonic read where an expansion would be is the next turn's check (the turn popped a
/// dead-end vertex); `closed` says that the history ends where the search ended.
fn walk_from(ev: &[&ProbeEv], pos0: usize, lim: &Limits, exact: bool, tree_key: Option<&dyn Fn(&ProbeEv) -> Option<u64>>, key: &dyn Fn(&ProbeEv) -> u64, dense: Option<bool>) -> Result<(Predicted, u64, usize), String> {
    let mut pos = pos0;
    let size_may_fire = lim.size.is_some() && tree_key.is_none();
    let mut tree: std::collections::BTreeSet<u64> = Default::default();
    let mut source: Option<u64> = None;
    LAST_TREE.with(|c| c.set(None));
    // the first monotonic read after the instance was built is the search's start time
    while pos < ev.len() && ev[pos].kind != K_MONO {
        if ev[pos].kind == PROBE_EXPAND {
            return Err("a vertex was expanded before the search read its start time".into());
        }
        pos += 1;
    }
    if pos >= ev.len() {
        return Ok((Predicted::Unknown, 0, pos));
    }
    let start = ev[pos].clock;
    pos += 1;
    let mut i: u64 = 0;
    loop {
        let mut reasons: Vec<&'static str> = vec![];
        // every runtime model that is due at this loop turn reads the clock, in evaluation order
        let mut due_not_fired: Vec<(u64, u32)> = vec![];
        for (limit, f, depth) in lim.runtimes.iter().copied() {
            if f != 0 && i % f == 0 {
                if pos < ev.len() && ev[pos].kind == K_MONO {
                    let v = ev[pos].clock;
                    pos += 1;
                    if v.saturating_sub(start) > limit {
                        if !reasons.contains(&"runtime") {
                            reasons.push("runtime");
                        }
                    } else {
                        due_not_fired.push((limit, depth));
                    }
                } else if exact {
                    // no clock read although a check is due: only legal when the search already ended at an
                    // earlier loop turn, which the walk would have noticed (no expansion followed)
                    return Err(format!("loop turn {} is a scheduled runtime check (frequency {}) but the search did not read the clock", i, f));
                } else {
                    return Ok((Predicted::Unknown, i, pos));
                }
            }
        }
        if let Some(limit) = lim.iterations {
            if i + 1 > limit {
                reasons.push("iteration");
            }
        }
        if let (Some(limit), true) = (lim.size, tree_key.is_some()) {
            if tree.len() as u64 > limit {
                reasons.push("size");
            }
        }
        if tree_key.is_some() {
            LAST_TREE.with(|c| c.set(Some(tree.len() as u64)));
        }
        if !reasons.is_empty() {
            // the explanation re-evaluates every model: the runtime model reads the clock once more at a
            // scheduled turn, and if the budget is exhausted by then the error may name it as well
            // (a combined model evaluates it twice more: once for itself, once inside the runtime model)
            if !reasons.contains(&"runtime") && !due_not_fired.is_empty() {
                let budget: usize = lim.runtimes.iter().map(|(_, _, d)| (*d as usize + 1).max(2)).sum::<usize>() * 2;
                let mut p2 = pos;
                let mut seen = 0;
                'peek: while p2 < ev.len() && ev[p2].kind == K_MONO && seen < budget {
                    for (limit, _) in &due_not_fired {
                        if ev[p2].clock.saturating_sub(start) > *limit {
                            reasons.push("runtime?");
                            break 'peek;
                        }
                    }
                    p2 += 1;
                    seen += 1;
                }
            }
            // nothing may be expanded once a limit fired
            let more = ev[pos..].iter().filter(|e| e.kind == PROBE_EXPAND).count();
            if more > 0 {
                return Err(format!("{} limit exhausted at loop turn {} but {} more expansion calls followed", reasons.join("+"), i, more));
            }
            return Ok((Predicted::Terminated(reasons), i, ev.len()));
        }
        // the expansion of this loop turn (one group of frontier calls for one vertex)
        if pos < ev.len() && ev[pos].kind == PROBE_EXPAND {
            let v = key(ev[pos]);
            if source.is_none() {
                source = Some(v); // the first vertex a search pops is its source: it never gets a tree entry
            }
            while pos < ev.len() && ev[pos].kind == PROBE_EXPAND && key(ev[pos]) == v {
                if let Some(k) = tree_key.and_then(|f| f(ev[pos])) {
                    if Some(k) != source {
                        tree.insert(k);
                    }
                }
                pos += 1;
            }
            i += 1;
        } else {
            // no expansion at this loop turn. With a runtime check at every turn (frequency 1) the clock reads
            // count the loop turns by themselves: another monotonic read right here is the next turn's check,
            // so this turn popped a vertex that has no edge to expand (a dead end) - still a loop turn, still
            // counted against the iteration limit. Anything else is the end of the search.
            let dense_clock = dense.is_some() && lim.runtimes.iter().any(|(_, f, _)| *f == 1);
            if dense_clock && pos < ev.len() && ev[pos].kind == K_MONO {
                if dense == Some(true) || ev[pos..].iter().any(|e| e.kind == PROBE_EXPAND) {
                    i += 1;
                    DEAD_END_TURNS.with(|c| c.set(c.get() + 1));
                    continue;
                }
                // trailing reads of a history that is not closed: loop turns or progress reporting - undecidable
                return Ok((Predicted::Unknown, i, pos));
            }
            // natural end (destination popped / queue empty) — or, if a size limit is configured, it fired
            if size_may_fire {
                return Ok((Predicted::Unknown, i, pos));
            }
            if !exact && !dense_clock {
                return Ok((Predicted::Unknown, i, pos));
            }
            return Ok((Predicted::Completed, i, pos));
        }
    }
}

fn judge(case: &Case, obs: &Obs) -> (Vec<Violation>, BTreeMap<String, u64>, bool) {
    let mut v: Vec<Violation> = vec![];
    let mut reach: BTreeMap<String, u64> = BTreeMap::new();
    let mut bump = |k: &str, n: u64| *reach.entry(k.to_string()).or_insert(0) += n;
    let mut lim = Limits::default();
    parse_limits(&case.world.termination, &mut lim);
    if let Some(e) = &obs.build_error {
        if lim.runtimes.iter().any(|(_, f, _)| *f == 0) {
            bump("frequency_zero_rejected", 1);
            return (v, reach, false);
        }
        v.push(Violation { class: "build-failed".into(), detail: e.clone() });
        return (v, reach, false);
    }
    for p in &obs.panics {
        v.push(Violation { class: super::c12::panic_class(p), detail: format!("panic: {} at {}", p.message, p.location) });
    }
    let batch = &case.batches[0];
    let run = match obs.runs.get(0) {
        Some(Some(Ok(r))) => r.clone(),
        Some(Some(Err(e))) => {
            v.push(Violation { class: "run-error".into(), detail: e.clone() });
            return (v, reach, true);
        }
        _ => return (v, reach, true),
    };
    let refs = match obs.reference.get(0) {
        Some(r) if r.iter().all(|x| x.is_some()) => r,
        _ => {
            bump("reference_failed", 1);
            return (v, reach, false);
        }
    };
    // round 8: every rebuilt application answers the batch like the first one did
    for (ri, rl) in obs.reloads.iter().enumerate() {
        bump("applications_built_again_after_one_with_other_limits", 1);
        match rl.as_array() {
            Some(rs) => {
                for (c, d) in crate::oracle::compare_by_request(&run, rs, 1e-9) {
                    v.push(Violation { class: format!("rebuilt-application-{}", c), detail: format!("the application built again in the same process (round {}, after one with generous limits was dropped) answers differently under limits {}: {}", ri, case.world.termination, d) });
                    break;
                }
            }
            None => v.push(Violation { class: "rebuilt-application-failed".into(), detail: rl.to_string().chars().take(300).collect() }),
        }
    }
    if case.world.termination_partial {
        bump("runtime_limit_configured_without_its_type", 1);
    }
    // a world without dead ends makes every loop turn visible as one expansion group
    let w = &case.world;
    let exact = (0..w.nv()).all(|x| w.edges.iter().any(|e| e.0 == x));
    bump(if exact { "exact_worlds" } else { "worlds_with_dead_ends" }, 1);
    let ref_exp = reference_expansions(obs);
    let segs = explored_segments(obs);
    let mut by_qid: BTreeMap<u64, &Segment> = BTreeMap::new();
    for s in &segs {
        by_qid.insert(s.qid, s);
    }
    for (qi, q) in batch.iter().enumerate() {
        let qid = q["_qid"].as_u64().unwrap_or(u64::MAX);
        let unlimited = match refs[qi].as_ref().unwrap().get(0) {
            Some(r) => r.clone(),
            None => continue,
        };
        let resp = match run.iter().find(|r| r["request"]["_qid"].as_u64() == Some(qid)) {
            Some(r) => r.clone(),
            None => {
                v.push(Violation { class: "lost".into(), detail: format!("no response for query {}", qid) });
                continue;
            }
        };
        if case.family == "edge" {
            // the wrapper answers some queries without running a search at all (same edge, or the
            // destination edge starts where the origin edge ends): nothing to limit there
            let oe = q["origin_edge"].as_u64().unwrap_or(0) as usize;
            let de = q["destination_edge"].as_u64().unwrap_or(0) as usize;
            if oe == de || oe >= w.ne() || de >= w.ne() || w.edges[oe].1 == w.edges[de].0 {
                bump("edge_queries_without_inner_search", 1);
                continue;
            }
        }
        let err = resp.get("error").and_then(|e| e.as_str()).unwrap_or("").to_string();
        let said: Vec<&'static str> = [("runtime", "exceeded runtime limit"), ("iteration", "exceeded iteration limit"), ("size", "exceeded solution size limit")].iter().filter(|(_, t)| err.contains(t)).map(|(k, _)| *k).collect();
        let terminated = !said.is_empty();
        if terminated {
            bump("terminated_responses", 1);
        }
        // --- outcome-level clauses (no event history needed) ---
        let n_unl = ref_exp.get(&qid).copied();
        let s_unl = unlimited.get("tree_size_count").and_then(|x| x.as_u64());
        if !terminated {
            // whenever a search returns under a limit its result is identical to the unlimited result
            let a = essence(&resp);
            let b = essence(&unlimited);
            if let Err(d) = essence_equal(&a, &b, 1e-9) {
                v.push(Violation { class: "differs-from-unlimited".into(), detail: format!("query {} returned under limits {} but differs from the unlimited search: {}", qid, case.world.termination, d) });
            }
            if resp.get("route").is_some() && resp.get("route") != unlimited.get("route") && !json_close(&resp["route"]["path"], &unlimited["route"]["path"], 0.0) {
                v.push(Violation { class: "route-differs-from-unlimited".into(), detail: format!("query {}: route {} vs unlimited {}", qid, resp["route"]["path"], unlimited["route"]["path"]) });
            }
            bump("completed_under_limit", 1);
            if let (Some(l), Some(n), true) = (lim.iterations, resp.get("iterations").and_then(|x| x.as_u64()), exact && case.family != "edge" && case.family != "yens" && case.family != "ksp") {
                if n > l {
                    v.push(Violation { class: "iterations-over-limit".into(), detail: format!("query {} reports {} iterations under an iteration limit of {}", qid, n, l) });
                }
            }
            if let (Some(l), Some(s)) = (lim.size, resp.get("tree_size_count").and_then(|x| x.as_u64())) {
                // (the reported size is the sum over the trees of the result: single-via k-shortest-paths returns the
                // tree of its forward and of its reverse search, each under the limit)
                let trees = if case.world.algorithm["type"] == json!("ksp_single_via") { 2 } else { 1 };
                if s > l.saturating_mul(trees) && case.world.algorithm["type"] != json!("yens") {
                    v.push(Violation { class: "tree-over-size-limit".into(), detail: format!("query {} returned a tree of {} under a solution-size limit of {}", qid, s, l) });
                }
            }
        }
        // iteration limit: stopped iff the unlimited search needs at least `limit` loop turns that expand
        if let (Some(l), Some(n), true) = (lim.iterations, n_unl, exact && case.family != "yens" && case.family != "ksp") {
            let must_stop = l <= n;
            if must_stop && !terminated {
                v.push(Violation { class: "iteration-limit-ignored".into(), detail: format!("query {}: the unlimited search expands {} times, the iteration limit is {}, yet the search was not stopped", qid, n, l) });
            }
            if !must_stop && said.contains(&"iteration") {
                v.push(Violation { class: "iteration-limit-early".into(), detail: format!("query {}: stopped by the iteration limit {} although the unlimited search expands only {} times", qid, l, n) });
            }
        }
        // (k-shortest-paths responses report the tree of the first search only; the spur searches grow their own)
        if let (Some(l), Some(s), false) = (lim.size, s_unl, case.family == "yens" || case.family == "ksp") {
            if s > l && !terminated {
                v.push(Violation { class: "size-limit-ignored".into(), detail: format!("query {}: the unlimited tree has {} entries, the size limit is {}, yet the search was not stopped", qid, s, l) });
            }
            if s <= l && said.contains(&"size") {
                v.push(Violation { class: "size-limit-early".into(), detail: format!("query {}: stopped by the size limit {} although the unlimited tree has only {} entries", qid, l, s) });
            }
        }
        if case.family == "yens" {
            // every sub-search starts by reading its start time; with an iteration limit only, no other
            // monotonic read happens inside a search, so the reads split the history into sub-searches
            // (reads after the last search - progress reporting - open empty sub-histories, which are harmless
            // for limits >= 1). All searches run forward, so expansion groups are loop turns; edges cut by the
            // algorithm can hide a turn, which can only lose a detection, never raise one.
            if let (Some(seg), Some(l), true) = (by_qid.get(&qid), lim.iterations, exact && lim.runtimes.is_empty() && lim.size.is_none()) {
                let mut subs: Vec<u64> = vec![];
                let mut last_src = u64::MAX;
                for e in &seg.events {
                    if e.kind == K_MONO {
                        subs.push(0);
                        last_src = u64::MAX;
                    } else if e.kind == PROBE_EXPAND {
                        if let Some(n) = subs.last_mut() {
                            if e.a != last_src {
                                *n += 1;
                                last_src = e.a;
                            }
                        }
                    }
                }
                bump("yens_subsearches_walked", subs.iter().filter(|n| **n > 0).count() as u64);
                if let Some(n) = subs.iter().find(|n| **n > l) {
                    v.push(Violation { class: "ksp-subsearch-over-iteration-limit".into(), detail: format!("query {}: a sub-search expanded {} times under an iteration limit of {} (sub-searches: {:?})", qid, n, l, subs) });
                }
                let exhausted = subs.iter().any(|n| *n >= l);
                if exhausted {
                    bump("yens_subsearch_exhausted", 1);
                    if subs.iter().skip(1).any(|n| *n >= l) && subs.first().map_or(false, |n| *n < l) {
                        bump("yens_spur_search_exhausted_first_search_not", 1);
                    }
                }
                if exhausted && !terminated && resp.get("error").is_none() {
                    v.push(Violation { class: "ksp-exhausted-but-not-terminated".into(), detail: format!("query {}: a sub-search used up the iteration limit of {} (expansions per sub-search: {:?}) but the response is not a termination error: {} route(s)", qid, l, subs, resp["route"].as_array().map_or(1, |a| a.len())) });
                }
                if !terminated && resp.get("error").is_none() {
                    let n_routes = |r: &Value| r["route"].as_array().map_or(1, |a| a.len());
                    if n_routes(&resp) != n_routes(&unlimited) {
                        v.push(Violation { class: "ksp-route-count-differs-from-unlimited".into(), detail: format!("query {}: {} route(s) under the limit, {} without", qid, n_routes(&resp), n_routes(&unlimited)) });
                    }
                }
            }
            // Every limit kind (round 6): the history is split into sub-searches at their cost-estimate calls. A
            // search asks for one estimate, then reads its start time, then - at loop turn 0 - once per runtime
            // model; inside the loop an estimate is followed by at most one read per runtime model (the next turn's
            // checks). So an estimate followed by more consecutive reads than there are runtime models opens a
            // sub-search. Each one is walked with the reference model of the limits, its budget measured from its
            // own start read, its tree modelled from its own admitted edges. (Edges cut by the algorithm never reach
            // the frontier wrapper; they all leave the sub-search's source, so they can only hide loop turn 0 of a
            // search that then finds nothing to pop.)
            let other_error = resp.get("error").is_some() && !terminated;
            if let (Some(seg), true, false) = (by_qid.get(&qid), exact, other_error) {
                let closed = seg.events.iter().any(|e| e.kind == sim::PROBE_SEARCH_END);
                let upto = seg.events.iter().position(|e| e.kind == sim::PROBE_SEARCH_END).unwrap_or(seg.events.len());
                let evs = &seg.events[..upto];
                let r_models = lim.runtimes.len();
                let edges = &w.edges;
                let mut subs: Vec<Vec<&ProbeEv>> = vec![];
                // (an estimate that may open a sub-search which is stopped at its loop turn 0 - or may be the last
                // estimate inside the loop of a search that is being stopped: the history cannot tell)
                let mut ambiguous_tail = false;
                for (k, e) in evs.iter().enumerate() {
                    if e.kind == sim::PROBE_ESTIMATE {
                        // inside the loop an estimate is asked for the vertex the edge just expanded leads to
                        let in_loop_shape = k > 0 && evs[k - 1].kind == PROBE_EXPAND && edges.get(ev_edge(evs[k - 1])).map(|x| x.1 as u64) == Some(e.a);
                        let reads = evs[k + 1..].iter().take_while(|x| x.kind == K_MONO).count();
                        let expands_later = evs[k + 1..].iter().take_while(|x| x.kind != sim::PROBE_ESTIMATE).any(|x| x.kind == PROBE_EXPAND);
                        if !in_loop_shape || (reads > r_models && expands_later) {
                            subs.push(vec![]);
                        } else if reads > r_models {
                            ambiguous_tail = true;
                        }
                    } else if let Some(cur) = subs.last_mut() {
                        cur.push(*e);
                    }
                }
                let tree_key = |e: &ProbeEv| -> Option<u64> { if ev_admitted(e) { edges.get(ev_edge(e)).map(|x| x.1 as u64) } else { None } };
                let n_subs = subs.len();
                let mut all_completed = n_subs > 0;
                if std::env::var_os("SIM_DEBUG_C10").is_some() {
                    eprintln!("YENS qid={} resp_err={:?} closed={} subs={} events={:?}", qid, resp.get("error").map(|e| e.to_string().chars().take(200).collect::<String>()), closed, n_subs, evs.iter().map(|e| (e.kind, e.a, ev_edge(e), e.clock)).collect::<Vec<_>>());
                }
                for (k, sub) in subs.iter().enumerate() {
                    bump("yens_subsearches_walked_all_limits", 1);
                    // (a loop turn whose edges are all cut expands nothing: with a runtime check at every turn the clock
                    // reads still count it. A sub-search's history is closed by the next sub-search's estimate or by the
                    // "search returned" marker; the last one of a failed query is followed by progress reporting)
                    match walk_from(sub, 0, &lim, true, Some(&tree_key), &|e: &ProbeEv| e.a, Some(k + 1 < n_subs || closed)) {
                        Err(d) => {
                            v.push(Violation { class: "limit-model-mismatch".into(), detail: format!("query {} (sub-search {} of {} of Yen's algorithm, termination {}): {}", qid, k, n_subs, case.world.termination, d) });
                            all_completed = false;
                            break;
                        }
                        Ok((Predicted::Terminated(reasons), turn, _)) => {
                            all_completed = false;
                            bump("yens_subsearch_walk_terminated", 1);
                            if k > 0 {
                                bump("yens_spur_search_walk_terminated", 1);
                            }
                            if reasons.contains(&"runtime") {
                                bump("yens_runtime_budget_exhausted", 1);
                                if k > 0 {
                                    bump("yens_runtime_budget_exhausted_in_spur_search", 1);
                                }
                            }
                            if !terminated {
                                v.push(Violation { class: "ksp-exhausted-but-not-terminated".into(), detail: format!("query {}: sub-search {} exhausted its {} limit at loop turn {} but the response is not a termination error: {} route(s)", qid, k, reasons.join("+"), turn, resp["route"].as_array().map_or(1, |a| a.len())) });
                            } else {
                                for r in reasons.iter().filter(|r| !r.ends_with('?')) {
                                    if !said.contains(r) {
                                        v.push(Violation { class: "wrong-limit-named".into(), detail: format!("query {}: sub-search {} was stopped by the {} limit but the error names {:?}", qid, k, r, said) });
                                    }
                                }
                                for s in &said {
                                    if !reasons.iter().any(|r| r.trim_end_matches('?') == *s) {
                                        v.push(Violation { class: "wrong-limit-named".into(), detail: format!("query {}: the error names the {} limit which sub-search {} had not exhausted (exhausted: {:?})", qid, s, k, reasons) });
                                    }
                                }
                            }
                            if k + 1 < n_subs {
                                v.push(Violation { class: "ksp-search-after-termination".into(), detail: format!("query {}: sub-search {} exhausted its {} limit but {} more sub-search(es) were started", qid, k, reasons.join("+"), n_subs - k - 1) });
                            }
                            break;
                        }
                        Ok((Predicted::Completed, _, _)) => {
                            bump("yens_subsearch_walk_completed", 1);
                        }
                        Ok((Predicted::Unknown, _, _)) => {
                            bump("yens_subsearch_walk_undecided", 1);
                            all_completed = false;
                            break;
                        }
                    }
                }
                if all_completed && terminated && ambiguous_tail {
                    bump("yens_walk_ambiguous_tail", 1);
                } else if all_completed && terminated {
                    v.push(Violation { class: "ksp-terminated-without-exhaustion".into(), detail: format!("query {} was stopped ({}) although none of its {} sub-searches exhausted a limit at any scheduled check{}", qid, err.chars().take(120).collect::<String>(), n_subs, if closed { "" } else { " (history not closed)" }) });
                }
            }
            continue;
        }
        if case.family == "ksp" {
            // outcome (round 8, also where the limits are not walked turn by turn - size limits): a response that
            // is not an error lists as many routes as the unlimited one - a stopped sub-search is an error, never a
            // shorter list
            if !terminated && resp.get("error").is_none() && unlimited.get("error").is_none() {
                let n_routes = |r: &Value| r["route"].as_array().map_or(1, |a| a.len());
                bump("ksp_route_counts_compared", 1);
                if n_routes(&resp) != n_routes(&unlimited) {
                    v.push(Violation { class: "ksp-route-count-differs-from-unlimited".into(), detail: format!("query {}: {} route(s) under limits {}, {} without", qid, n_routes(&resp), case.world.termination, n_routes(&unlimited)) });
                }
            }
            // single-via: a forward search, then a reverse search, each with a budget of its own; both are
            // walked with the reference model of the limits (the reverse search expands incoming edges: an
            // expansion call belongs to the destination of its edge)
            let exact_rev = (0..w.nv()).all(|x| w.edges.iter().any(|e| e.1 == x));
            if let (Some(seg), true) = (by_qid.get(&qid), exact) {
                let fwd_key = |e: &ProbeEv| e.a;
                let edges = &w.edges;
                let rev_key = |e: &ProbeEv| edges.get(ev_edge(e)).map_or(u64::MAX, |x| x.1 as u64);
                let other_error = resp.get("error").is_some() && !terminated;
                let mut judge_sub = |label: &str, r: Result<(Predicted, u64, usize), String>, last: bool, v: &mut Vec<Violation>| -> Option<usize> {
                    match r {
                        Err(d) => {
                            v.push(Violation { class: "limit-model-mismatch".into(), detail: format!("query {} ({} sub-search of single-via, termination {}): {}", qid, label, case.world.termination, d) });
                            None
                        }
                        Ok((Predicted::Terminated(reasons), turn, _)) => {
                            bump("ksp_walk_terminated", 1);
                            if !terminated {
                                v.push(Violation { class: "ksp-exhausted-but-not-terminated".into(), detail: format!("query {}: the {} sub-search exhausted its {} limit at loop turn {} but the response is not a termination error", qid, label, reasons.join("+"), turn) });
                            } else {
                                for r in reasons.iter().filter(|r| !r.ends_with('?')) {
                                    if !said.contains(r) {
                                        v.push(Violation { class: "wrong-limit-named".into(), detail: format!("query {}: the {} sub-search was stopped by the {} limit but the error names {:?}", qid, label, r, said) });
                                    }
                                }
                            }
                            None
                        }
                        Ok((Predicted::Completed, _, end)) => {
                            bump("ksp_walk_completed", 1);
                            if last && terminated {
                                v.push(Violation { class: "ksp-terminated-without-exhaustion".into(), detail: format!("query {} was stopped ({}) although neither sub-search exhausted a limit at any scheduled check", qid, err.chars().take(120).collect::<String>()) });
                            }
                            Some(end)
                        }
                        Ok((Predicted::Unknown, _, _)) => {
                            bump("ksp_walk_undecided", 1);
                            None
                        }
                    }
                };
                if std::env::var_os("SIM_DEBUG_C10").is_some() {
                    eprintln!("SEG qid={} resp_err={:?} events={:?}", qid, resp.get("error"), seg.events.iter().map(|e| (e.kind, e.a, e.b, e.clock)).collect::<Vec<_>>());
                }
                // (a query that is answered by another error - no destination, no path - may not have started
                // either search: the monotonic reads in its history are progress reporting, not a search)
                let first = if other_error && !seg.events.iter().any(|e| e.kind == PROBE_EXPAND) { Ok((Predicted::Unknown, 0, 0)) } else { walk_from(&seg.events, 0, &lim, exact, None, &fwd_key, None) };
                if let Some(end) = judge_sub("forward", first, false, &mut v) {
                    if !other_error && exact_rev {
                        let second = walk_from(&seg.events, end, &lim, exact_rev, None, &rev_key, None);
                        judge_sub("reverse", second, true, &mut v);
                    }
                }
            }
            // each sub-search (forward, then reverse) reads its own start time, then checks at loop turn 0
            // (coarse variant for configurations whose only scheduled check is the one at loop turn 0)
            if let (Some(seg), Some((limit, _)), true) = (by_qid.get(&qid), lim.runtime.filter(|(_, f)| *f >= 100000 && lim.iterations.is_none()), exact) {
                let mono: Vec<(usize, u64)> = seg.events.iter().enumerate().filter(|(_, e)| e.kind == K_MONO).map(|(i, e)| (i, e.clock)).collect();
                let mut fired = vec![];
                let mut k = 0;
                let mut subs = 0;
                while k + 1 < mono.len() && subs < 2 {
                    // a start read is immediately followed by the turn-0 check read
                    if mono[k + 1].0 == mono[k].0 + 1 {
                        fired.push(mono[k + 1].1.saturating_sub(mono[k].1) > limit);
                        subs += 1;
                        k += 2;
                    } else {
                        k += 1;
                    }
                }
                bump("ksp_subsearches_walked", subs as u64);
                let any = fired.iter().any(|f| *f);
                if any {
                    bump("ksp_budget_exhausted", 1);
                }
                if terminated && !any {
                    v.push(Violation { class: "ksp-terminated-without-exhaustion".into(), detail: format!("query {}: stopped ({}) although no sub-search exhausted its own budget of {} ns (sub-search start/check reads: {:?})", qid, err.chars().take(120).collect::<String>(), limit, mono.iter().take(6).collect::<Vec<_>>()) });
                }
                // (only for successful responses: both sub-searches certainly ran, so the first two
                // start/check pairs in the history are theirs and not progress-bar reads)
                if !terminated && any && resp.get("error").is_none() {
                    v.push(Violation { class: "ksp-exhausted-but-not-terminated".into(), detail: format!("query {}: a sub-search exhausted its budget at its first check but the response is not a termination error", qid) });
                }
            }
            continue;
        }
        // --- history-level clauses: walk the per-thread event stream with the reference model ---
        if let Some(seg) = by_qid.get(&qid) {
            // the search tree is modelled from the admitted edges of the expansion events (forward search:
            // an admitted edge gives its destination vertex a tree entry). Turn-counting limits need every
            // loop turn to be visible; the size limit does not (a turn that expands nothing leaves the tree as it is)
            let edges = &w.edges;
            let tree_key = |e: &ProbeEv| -> Option<u64> { if ev_admitted(e) { edges.get(ev_edge(e)).map(|x| x.1 as u64) } else { None } };
            let turns_matter = lim.iterations.is_some() || !lim.runtimes.is_empty();
            let walked = walk(seg, &lim, exact || !turns_matter, Some(&tree_key));
            let modelled_tree = LAST_TREE.with(|c| c.get());
            if lim.size.is_some() {
                bump("size_limit_walked", 1);
            }
            match walked {
                Err(d) => v.push(Violation { class: "limit-model-mismatch".into(), detail: format!("query {} (termination {}): {}", qid, case.world.termination, d) }),
                Ok((Predicted::Terminated(reasons), turn)) => {
                    bump("walk_terminated", 1);
                    if reasons.contains(&"size") {
                        bump("size_limit_exhausted", 1);
                        if reasons.len() == 1 {
                            bump("size_limit_exhausted_alone", 1);
                        }
                    }
                    if reasons.contains(&"runtime") {
                        bump("runtime_budget_exhausted", 1);
                        if turn > 0 {
                            bump("runtime_budget_exhausted_mid_search", 1);
                        }
                    }
                    if !terminated {
                        v.push(Violation { class: "exhausted-but-not-terminated".into(), detail: format!("query {}: {} limit exhausted at loop turn {} but the response is not a termination error: {}", qid, reasons.join("+"), turn, resp.to_string().chars().take(300).collect::<String>()) });
                    } else {
                        for r in reasons.iter().filter(|r| !r.ends_with('?')) {
                            if !said.contains(r) {
                                v.push(Violation { class: "wrong-limit-named".into(), detail: format!("query {}: stopped by the {} limit but the error names {:?}: {}", qid, r, said, err) });
                            }
                        }
                        for s in &said {
                            // (in a world with dead-end vertices the walk undercounts the loop turns: a limit that
                            // counts turns may have been exhausted as well without the model seeing it; the tree model
                            // does not depend on turns)
                            if !reasons.contains(s) && !reasons.iter().any(|r| r.trim_end_matches('?') == *s) && (exact || *s == "size") {
                                v.push(Violation { class: "wrong-limit-named".into(), detail: format!("query {}: the error names the {} limit which was not exhausted (exhausted: {:?})", qid, s, reasons) });
                            }
                        }
                    }
                }
                Ok((Predicted::Completed, turns)) => {
                    bump("walk_completed", 1);
                    if turns > w.nv() as u64 {
                        bump("searches_with_more_turns_than_vertices", 1);
                    }
                    if terminated {
                        v.push(Violation { class: "terminated-without-exhaustion".into(), detail: format!("query {} was stopped ({}) although no limit was exhausted at any scheduled check", qid, err) });
                    }
                    // self-check of the tree model against what a returned search reports (the edge-oriented
                    // wrapper adds entries of its own afterwards)
                    if let (Some(m), Some(s), false) = (modelled_tree, resp.get("tree_size_count").and_then(|x| x.as_u64()), terminated || case.family == "edge" || resp.get("error").is_some()) {
                        bump(if m == s { "tree_model_agrees_with_reported_size" } else { "tree_model_differs_from_reported_size" }, 1);
                    }
                }
                Ok((Predicted::Unknown, _)) => bump("walk_undecided", 1),
            }
        } else {
            bump("segment_missing", 1);
        }
    }
    (v, reach, true)
}

impl Check for C10 {
    fn id(&self) -> &'static str {
        "C10"
    }
    fn families(&self, _tier: Tier) -> Vec<&'static str> {
        vec!["runtime", "reopen", "combined", "iterations", "size", "combined", "ksp", "edge", "combined", "yens", "neighbour", "deadends", "ksp"]
    }
    fn default_runs(&self, tier: Tier) -> u64 {
        match tier {
            Tier::Quick => 13000,
            Tier::Thorough => 400000,
        }
    }
    fn gen(&self, seed: u64, family: &str, tier: Tier) -> Case {
        if family == "neighbour" {
            // "a search is stopped by its limits only": a second caller thread runs a batch of its own on the same
            // application, into a response file whose disk fills up or breaks and stays that way (its run() may
            // fail). The first caller's searches are walked with the reference model of the limits as ever (round 6)
            let mut c = gen(seed, if seed % 2 == 0 { "runtime" } else { "combined" }, tier);
            c.family = family.to_string();
            let mut r = Rng::new(seed ^ fnv64("C10-neighbour"));
            let mut other: Vec<Value> = vec![];
            for q in c.batches[0].iter() {
                let mut q2 = q.clone();
                q2["_qid"] = json!(q["_qid"].as_u64().unwrap_or(0) % 1000 + 1000);
                other.push(q2);
            }
            while other.len() < 4 {
                let mut q2 = other[r.below(other.len() as u64) as usize].clone();
                q2["_qid"] = json!(2000 + other.len() as u64);
                other.push(q2);
            }
            c.batches.push(other);
            c.world.out = Some(crate::world::OutFile { format: crate::world::OutFormat::Json, flush_rate: None, preexisting: false });
            c.world.persist = true;
            c.world.per_run_sinks = Some(vec![0, 1]);
            c.simcfg.faults |= sim::F_SHORT_WRITE | *r.pick(&[sim::F_ENOSPC_WRITE, sim::F_EIO_WRITE, sim::F_ZERO_WRITE]);
            c.simcfg.io_fault_rate = *r.pick(&[0.2, 0.5, 0.9]);
            c.simcfg.max_hard_faults = 1;
            c.simcfg.fault_paths = vec!["/sim/out".into()];
            c.params = json!({"two_callers": true});
            if r.chance(0.4) {
                // the neighbour offers sections of the application configuration as per-run overrides (the unchanged
                // tree reads parallelism and the two response policies from a run's configuration and nothing else):
                // whatever a run's configuration says, it is that run's (round 7)
                let lim = *r.pick(&[0u64, 1, 1 << 40]);
                c.params["run_overrides"] = json!([{}, {"termination": {"type": "iterations", "limit": lim}, "algorithm": {"type": "dijkstra"}}]);
            }
            return c;
        }
        gen(seed, family, tier)
    }
    fn run(&self, case: &Case, fatal_fd: i32) -> ChildResult {
        let obs = execute(case, ExecOpts { reference: true, trace: false, log_clock: true, explore_build: false }, Box::new(InstallProbes { estimates: case.family == "yens" }), fatal_fd);
        let (violations, mut reach, nontrivial) = judge(case, &obs);
        reach.insert("preemptions".into(), obs.stats.preemptions);
        reach.insert("dead_end_turns_counted".into(), DEAD_END_TURNS.with(|c| c.get()));
        let sig = fnv64(&format!("{}|{}|{}|{:?}", serde_json::to_string(&case.batches).unwrap(), case.world.termination, obs.stats.sched_hash, obs.recorded.faults.len()));
        ChildResult {
            violations,
            nontrivial,
            signature: sig,
            reach,
            sample: json!({"seed": case.seed, "family": case.family, "termination": case.world.termination, "algorithm": case.world.algorithm, "workers": case.workers,
                "queries": case.batches[0].len(), "faults": obs.recorded.faults.iter().take(5).collect::<Vec<_>>(), "clock_jump_ns": case.simcfg.clock_jump_ns,
                "events": obs.probes.len(), "sim_time_ns": obs.stats.sim_time_ns}),
            stats: Some(obs.stats.clone()),
            recorded: Some(obs.recorded.clone()),
            harness_error: None,
        }
    }
    fn rule(&self) -> String {
        "each evaluation = one generated world (mostly without dead-end vertices, so every loop turn of the search shows as one expansion group) with a termination model drawn per family: runtime limit 0/1/2/60 s with check frequency 1-8, iteration limit 0-13, solution-size limit 0-13, or a combination in a generated order; a batch of 1-10 queries on a simulated pool of 1-5 workers. The simulator owns the clock: ticks of 1 us per read plus, per run, clock jumps at clock reads and/or stalls of a single worker at expansion points (per-event rate 0-0.2) of one or two limits' length. A harness-side frontier-model wrapper logs query starts and expansions; a reference model of the limits walks each query's history (start read, scheduled check reads with the values the search was given, expansions). Outcomes are also compared with the same query under no limit (identical result when it returns; stopped iff the unlimited search needs more than the limit). non-trivial = every run; distinct = distinct (batch, limits, schedule hash, fault count). Round 2/3 families: combined models nested up to four levels; ksp = single-via, both sub-searches walked (reverse search keyed by edge destination) under runtime / iteration / combined limits; yens = Yen's algorithm with a similarity threshold and pairs three or more hops apart, every spur search under the iteration limit; deadends = a third of the vertices without outgoing edges, iteration limit + a runtime check at every loop turn, so that the clock reads count the loop turns (a harness output plugin marks where a successful search returned); edge = edge-oriented queries Round 6: the solution-size limit is walked against a reference model of the search tree (distinct vertices reached through admitted edges); Yen's sub-searches are walked under every limit kind (history split at the cost-estimate calls a traversal-model wrapper reports; each sub-search has a budget and a tree of its own); family neighbour = a second caller thread runs a batch of its own into a response file that fails while the first caller's searches are walked. Round 7: iteration limits around the vertex count; estimates that overshoot (weight_factor above 1, edges shorter than the straight line) make searches re-open vertices - family reopen = small dense networks on which a search takes more loop turns than there are vertices; the neighbouring caller of family neighbour offers sections of the application configuration (termination, algorithm) as per-run overrides. Rounds 8-9: with counting limits and a plain search the case goes on after its explored run - 2-5 times an application with generous limits is built, used and dropped and the case's own application is built again: it answers the batch as the first one did; a runtime limit may be configured without naming its type (the shipped default); single-via k-shortest-paths under solution-size limits, judged on the outcome (an error, or as many routes as without limits).".into()
    }
    fn assumptions(&self) -> Vec<String> {
        vec![
            "the exact walk is only applied in worlds without dead-end vertices; elsewhere loop turns that expand nothing are invisible and only the outcome clauses are checked".into(),
            "the solution-size limit is walked with a reference model of the search tree (the distinct vertices reached through admitted edges so far; agreement with the size every returned search reports is counted in reach): it must fire at the first loop turn that finds the tree larger than the limit, nothing may be expanded afterwards - which is 'never exceeds the limit by more than one vertex's out-degree' - and it may not fire earlier; the sub-searches of single-via k-shortest-paths are not walked turn by turn under size limits (outcome only)".into(),
            "k-shortest-path sub-searches: single-via (family ksp) - the forward and the reverse search are both walked under runtime / iteration / combined limits, the reverse walk only in worlds where every vertex is entered by some edge; Yen's (family yens) - every sub-search is walked under every limit kind, its history split at the cost-estimate calls; one constellation is undecidable and counted, not judged (yens_walk_ambiguous_tail)".into(),
            "iteration and size clauses contain no clock or schedule: that part is an input sweep executed inside the simulator".into(),
        ]
    }
    fn judge_abnormal(&self, case: &Case, what: &str) -> Option<Violation> {
        let f0 = case.world.termination.to_string().contains("\"frequency\":0");
        if what.contains("deadlock") {
            Some(Violation { class: "deadlock".into(), detail: what.into() })
        } else if what.contains("budget") {
            // (the configured algorithm identifies the input family that fails, as in C12)
            let algo = case.world.algorithm["type"].as_str().unwrap_or("?");
            let site = what.split(" @").nth(1).unwrap_or("unknown");
            Some(Violation { class: if algo == "yens" { format!("unbounded[{}]@{}", algo, site) } else { "unbounded".into() }, detail: what.into() })
        } else {
            Some(Violation { class: format!("abort:{}{}", what, if f0 { "[frequency=0]" } else { "" }), detail: what.into() })
        }
    }
}
