//! C19 — the output file holds one intact record per response under any parallelism.

use super::c06::{gen_batch_case, parse_json_lines, StageProbe};
use super::common::world_reach;
use crate::driver::{fnv64, Check, ChildResult, Tier, Violation};
use crate::oracle::*;
use crate::scenario::{execute, Case, ExecOpts, Obs};
use crate::sim;
use crate::world::{OutFormat, PREEXISTING_JSON};
use serde_json::{json, Value};
use std::collections::BTreeMap;

pub struct C19;

fn strip_csv_keys(r: &Value) -> Value {
    let mut x = r.clone();
    if let Some(m) = x.as_object_mut() {
        m.remove("csv_error");
        let only_csv = m.get("error").and_then(|e| e.as_object()).map_or(false, |e| e.len() == 1 && e.contains_key("csv"));
        if only_csv {
            m.remove("error");
        }
    }
    x
}

/// one file sink: the bytes of its file against the expected (isolated) and the returned responses
#[allow(clippy::too_many_arguments)]
fn judge_sink(out: &crate::world::OutFile, lowercased: bool, earlier_csv: &[Vec<(String, Value)>], data: &Option<Vec<u8>>, si: usize, expected_ref: &[Value], returned_search: &[Value], all_ok: bool, relaxed: bool, hard_fired: u64, any_csv: bool, persist: bool, v: &mut Vec<Violation>, bump: &mut dyn FnMut(&str, u64)) {
    let data = match data {
        Some(d) => d.clone(),
        None => {
            if relaxed {
                return; // a failed open / header write: the file was never created
            }
            v.push(Violation { class: "file-missing".into(), detail: format!("output file of sink {} was not created", si) });
            return;
        }
    };
    let mut text = match String::from_utf8(data) {
        Ok(t) => t,
        Err(e) => {
            v.push(Violation { class: "file-corrupt".into(), detail: format!("output file is not UTF-8: {}", e) });
            return;
        }
    };
    if out.preexisting {
        if !text.starts_with(PREEXISTING_JSON) {
            v.push(Violation { class: "preexisting-clobbered".into(), detail: "records left in the file by an earlier session were not kept at its start".into() });
            return;
        }
        text = text[PREEXISTING_JSON.len()..].to_string();
        bump("preexisting_file", 1);
    }
    match &out.format {
        OutFormat::JsonArray => {}
        OutFormat::Json => {
            if relaxed {
                // hard fault: may fail or lose un-acknowledged data, never wrong data. At most one damaged line per hard fault.
                let want = multiset(expected_ref.iter().map(|r| essence(r).request));
                let mut bad = 0u64;
                let mut got: BTreeMap<String, usize> = BTreeMap::new();
                for line in text.lines() {
                    match serde_json::from_str::<Value>(line) {
                        Ok(rec) if rec.get("request").is_some() => *got.entry(essence(&rec).request).or_insert(0) += 1,
                        _ => bad += 1,
                    }
                }
                if bad > hard_fired {
                    v.push(Violation { class: "hard-fault-damage".into(), detail: format!("{} damaged lines after {} hard write faults", bad, hard_fired) });
                }
                for (k, n) in &got {
                    if want.get(k).copied().unwrap_or(0) < *n {
                        v.push(Violation { class: "hard-fault-duplicate".into(), detail: format!("record for {} appears {} times after a failed write", k, n) });
                    }
                }
            } else {
                match parse_json_lines(text.as_bytes()) {
                    Err(e) => v.push(Violation { class: "file-corrupt".into(), detail: e }),
                    Ok(recs) => {
                        bump("records_found", recs.len() as u64);
                        if all_ok {
                            let recs_cmp: Vec<Value> = if any_csv { recs.iter().map(strip_csv_keys).collect() } else { recs.clone() };
                            for (c, d) in compare_by_request(expected_ref, &recs_cmp, 1e-9) {
                                v.push(Violation { class: format!("file-{}", c), detail: d });
                            }
                            if persist {
                                // each record parses back to exactly the response that was produced
                                let mut used = vec![false; recs.len()];
                                // (a CSV sink records its unmappable columns inside the response before the sinks
                                // configured after it - and the caller - see it: the record of this sink carries
                                // those keys exactly if a CSV sink is configured before it, the returned response
                                // whenever the run had a CSV sink at all)
                                let csv_before = !earlier_csv.is_empty();
                                for r in returned_search {
                                    let r = if any_csv && !csv_before { strip_csv_keys(r) } else { r.clone() };
                                    let key = canon_blind(&r);
                                    let hit = recs.iter().enumerate().position(|(i, x)| !used[i] && canon_blind(x) == key && json_close(x, &r, 1e-12));
                                    match hit {
                                        Some(i) => used[i] = true,
                                        None => {
                                            v.push(Violation { class: "file-not-the-response".into(), detail: format!("no file record equals the response returned to the caller: {}", canon(&r).chars().take(400).collect::<String>()) });
                                            break;
                                        }
                                    }
                                }
                            }
                        }
                    }
                }
            }
        }
        OutFormat::Csv { .. } => {
            // the file is read as CSV without prescribing how a cell is escaped: JSON rendering (what the
            // writer produces today), RFC 4180 quoting or bare text are all accepted for the same value
            let (mut recs, unfinished) = parse_csv_records(&text);
            if (unfinished || !text.ends_with('\n')) && !relaxed && !text.is_empty() {
                v.push(Violation { class: "file-corrupt".into(), detail: "CSV file does not end with a line break (truncated row)".into() });
            }
            if recs.is_empty() {
                if relaxed {
                    bump("header_lost_to_hard_fault", 1);
                } else {
                    v.push(Violation { class: "csv-no-header".into(), detail: "CSV file is empty: no header".into() });
                }
                return;
            }
            let header_cells = recs.remove(0);
            let header: String = header_cells.iter().map(|c| match c { Cell::Text(t) => t.clone(), Cell::Json(Value::String(t)) => t.clone(), Cell::Json(j) => j.to_string() }).collect::<Vec<_>>().join(",");
            let cols = match csv_columns_from_header(&out.format, &header, lowercased) {
                Ok(c) => c,
                Err(e) => {
                    if relaxed {
                        // the injected hard fault hit the header write itself: an un-acknowledged write may be lost
                        bump("header_lost_to_hard_fault", 1);
                    } else {
                        v.push(Violation { class: "csv-header".into(), detail: e });
                    }
                    return;
                }
            };
            if recs.iter().any(|r| *r == header_cells) {
                v.push(Violation { class: "csv-header-repeated".into(), detail: "the header appears more than once".into() });
            }
            bump("csv_rows_found", recs.len() as u64);
            // expected rows from the isolated responses (the formatter sees the response before it adds anything)
            let expected_rows: Vec<Vec<Value>> = expected_ref.iter().map(|r| expected_cells(&cols, r).0).collect();
            let csv_err_rows = expected_ref.iter().filter(|r| expected_cells(&cols, r).1).count();
            bump("csv_rows_with_unmappable_cell", csv_err_rows as u64);
            bump("csv_cells_with_line_break_or_comma", expected_rows.iter().flatten().filter(|c| c.as_str().map_or(false, |s| s.contains('\n') || s.contains(','))).count() as u64);
            // a CSV sink earlier in a combined policy has recorded its unmappable columns in the response
            // ("error" / "csv_error") before this sink saw it: columns that read the error are then not comparable
            let wild: Vec<Vec<bool>> = expected_ref
                .iter()
                .map(|r| {
                    let tainted = earlier_csv.iter().any(|m| expected_cells(m, r).1);
                    cols.iter().map(|(_, m)| tainted && m.to_string().contains("error")).collect()
                })
                .collect();
            let row_matches = |er: &Vec<Value>, w: &Vec<bool>, ar: &Vec<Cell>| er.len() == ar.len() && er.iter().zip(ar.iter()).enumerate().all(|(i, (e, c))| w.get(i).copied().unwrap_or(false) || cell_matches(e, c, 1e-9));
            let mut used = vec![false; recs.len()];
            let mut missing = 0;
            let mut example = String::new();
            // exact rows first, rows with incomparable cells last (greedy matching must not let a
            // wildcard row take the place of an exact one)
            let mut order: Vec<usize> = (0..expected_rows.len()).collect();
            order.sort_by_key(|i| wild[*i].iter().filter(|w| **w).count());
            for ei in order {
                let er = &expected_rows[ei];
                let mut found = false;
                for (i, ar) in recs.iter().enumerate() {
                    if !used[i] && row_matches(er, &wild[ei], ar) {
                        used[i] = true;
                        found = true;
                        break;
                    }
                }
                if !found {
                    missing += 1;
                    if example.is_empty() {
                        example = format!("{:?}", er);
                    }
                }
            }
            let extra = used.iter().filter(|u| !**u).count() as u64;
            if relaxed {
                if extra > hard_fired {
                    v.push(Violation { class: "hard-fault-damage".into(), detail: format!("{} damaged/unexpected rows after {} hard write faults", extra, hard_fired) });
                }
            } else if all_ok {
                if missing > 0 {
                    v.push(Violation { class: "csv-row-missing".into(), detail: format!("{} expected rows are not in the file (columns {:?}), e.g. {}", missing, cols.iter().map(|c| &c.0).collect::<Vec<_>>(), example) });
                }
                if extra > 0 {
                    let i = used.iter().position(|u| !*u).unwrap();
                    v.push(Violation { class: "csv-row-extra".into(), detail: format!("{} rows in the file belong to no response, e.g. {:?}", extra, recs[i]) });
                }
            }
        }
    }
}

/// how many of these (acknowledged) responses have no record in the file? None = the file cannot be read at
/// all (no header left)
fn count_missing(out: &crate::world::OutFile, lowercased: bool, data: &Option<Vec<u8>>, expected: &[Value]) -> Option<u64> {
    let text = String::from_utf8_lossy(data.as_ref()?).to_string();
    let text = if out.preexisting && text.starts_with(PREEXISTING_JSON) { text[PREEXISTING_JSON.len()..].to_string() } else { text };
    match &out.format {
        OutFormat::JsonArray => None,
        OutFormat::Json => {
            let mut got: BTreeMap<String, usize> = BTreeMap::new();
            for line in text.lines() {
                if let Ok(rec) = serde_json::from_str::<Value>(line) {
                    if rec.get("request").is_some() {
                        *got.entry(essence(&rec).request).or_insert(0) += 1;
                    }
                }
            }
            let want = multiset(expected.iter().map(|r| essence(r).request));
            Some(want.iter().map(|(k, n)| n.saturating_sub(got.get(k).copied().unwrap_or(0)) as u64).sum())
        }
        OutFormat::Csv { .. } => {
            let (mut recs, _) = parse_csv_records(&text);
            if recs.is_empty() {
                return if expected.is_empty() { Some(0) } else { None };
            }
            let header_cells = recs.remove(0);
            let header: String = header_cells.iter().map(|c| match c { Cell::Text(t) => t.clone(), Cell::Json(Value::String(t)) => t.clone(), Cell::Json(j) => j.to_string() }).collect::<Vec<_>>().join(",");
            let cols = csv_columns_from_header(&out.format, &header, lowercased).ok()?;
            let mut used = vec![false; recs.len()];
            let mut missing = 0u64;
            for r in expected {
                let er = expected_cells(&cols, r).0;
                let hit = recs.iter().enumerate().position(|(i, ar)| !used[i] && er.len() == ar.len() && er.iter().zip(ar.iter()).all(|(e, c)| cell_matches(e, c, 1e-9)));
                match hit {
                    Some(i) => used[i] = true,
                    None => missing += 1,
                }
            }
            Some(missing)
        }
    }
}

pub fn judge(case: &Case, obs: &Obs) -> (Vec<Violation>, BTreeMap<String, u64>, bool) {
    let mut v: Vec<Violation> = vec![];
    let mut reach: BTreeMap<String, u64> = BTreeMap::new();
    let mut bump = |k: &str, n: u64| *reach.entry(k.to_string()).or_insert(0) += n;
    if case.params.get("via_bindings").and_then(|x| x.as_bool()).unwrap_or(false) && case.params.get("cli").map_or(true, |c| !c.is_object()) {
        bump("cases_through_the_binding_interface", 1);
    }
    let out = match &case.world.out {
        Some(o) => o,
        None => return (v, reach, false),
    };
    let hard = case.simcfg.faults & sim::F_HARD != 0;
    // the command-line runner never hands responses back: judged like the discard policy, as one run
    let cli = case.params.get("cli").map_or(false, |c| c.is_object());
    let persist = case.world.persist && !cli;
    // hard faults on the output side (a write or the open of the output file) and on the input side (a read
    // of the command-line runner's query file)
    let hard_fired: u64 = obs.stats.faults.iter().filter(|(k, _)| *k == "eio_write" || k.starts_with("enospc") || k.starts_with("eopen") || *k == "zero_write").map(|(_, n)| *n).sum();
    let hard_read_fired: u64 = obs.stats.faults.get("eio_read").copied().unwrap_or(0);
    if let Some(e) = &obs.build_error {
        v.push(Violation { class: "build-failed".into(), detail: format!("application failed to build: {}", e) });
        return (v, reach, false);
    }
    // the command-line runner builds the application inside the explored phase. The application measures its
    // own loading times with the wall clock and refuses to start when one of them comes out negative - which is
    // what a wall clock set back during loading gives. No batch was run: nothing the property speaks about
    // happened (recorded as an observation in DESIGN.md, not a finding).
    if cli && obs.stats.faults.get("wall_clock_step_back").copied().unwrap_or(0) > 0 {
        if let Some(Some(Err(e))) = obs.runs.get(0) {
            if e.contains("Source duration value is out of range") {
                bump("app_refused_to_start_after_wall_clock_step", 1);
                return (v, reach, false);
            }
        }
    }
    for p in &obs.panics {
        v.push(Violation { class: format!("panic@{}", p.location), detail: format!("panic: {} at {} (thread {})", p.message, p.location, p.thread) });
    }
    if obs.reference.iter().any(|b| b.iter().any(|r| r.is_none())) {
        bump("reference_failed", 1);
        return (v, reach, false);
    }
    let stage = obs.extra.get("stage").cloned().unwrap_or(Value::Null);
    let n_ok = |bi: usize, qi: usize| stage.get(bi).and_then(|s| s.get(qi)).and_then(|s| s.as_u64()).unwrap_or(0) as usize;
    // expected search-stage responses (isolated) and what the caller got back, per run() call
    let mut expected_by_batch: Vec<Vec<Value>> = vec![];
    let mut returned_by_batch: Vec<Vec<Value>> = vec![];
    let mut all_ok = true;
    for (bi, batch) in case.batches.iter().enumerate() {
        let mut n_search = 0;
        let mut exp = vec![];
        let mut ret = vec![];
        for (qi, _q) in batch.iter().enumerate() {
            let rs = obs.reference[bi][qi].clone().unwrap();
            let k = n_ok(bi, qi).min(rs.len());
            n_search += k;
            exp.extend(rs.into_iter().take(k));
        }
        match obs.runs.get(if cli { 0 } else { bi }) {
            Some(Some(Ok(r))) => {
                if persist {
                    if r.len() < n_search {
                        v.push(Violation { class: "returned-count".into(), detail: format!("run {} returned {} responses, {} search responses expected", bi, r.len(), n_search) });
                        all_ok = false;
                    } else {
                        ret.extend(r[..n_search].iter().cloned());
                    }
                }
            }
            Some(Some(Err(e))) => {
                all_ok = false;
                if hard && hard_fired > 0 {
                    bump("run_failed_after_hard_fault", 1);
                } else {
                    v.push(Violation { class: "run-error".into(), detail: format!("run() failed without a hard fault: {}", e) });
                }
            }
            _ => all_ok = false,
        }
        expected_by_batch.push(exp);
        returned_by_batch.push(ret);
    }
    let expected_ref: Vec<Value> = expected_by_batch.iter().flatten().cloned().collect();
    let returned_search: Vec<Value> = returned_by_batch.iter().flatten().cloned().collect();
    // which sinks each run writes to (per-run output policy overrides)
    let n_sinks = if case.world.out2.is_some() { 2 } else { 1 };
    let mask_of = |bi: usize| -> u8 { case.world.per_run_sinks.as_ref().and_then(|m| m.get(bi)).copied().unwrap_or(3) & if n_sinks == 2 { 3 } else { 1 } };
    if case.world.per_run_sinks.is_some() {
        bump("per_run_output_policies", 1);
    }
    let nontrivial = expected_ref.len() > 1;
    bump("records_expected", expected_ref.len() as u64);
    let relaxed = hard && hard_fired > 0;
    if relaxed {
        bump("relaxed_oracle_runs", 1);
        // a failed write is reported: a run that returns Ok for everything after an EIO / ENOSPC has
        // swallowed the error (an acknowledged response is then missing from the file)
        let header_write_hit = obs.build_error.is_some();
        if all_ok && !header_write_hit && (cli || obs.runs.len() == case.batches.len()) {
            v.push(Violation { class: "hard-fault-swallowed".into(), detail: format!("{} hard write fault(s) were injected but every run() returned Ok", hard_fired) });
        }
    }
    // a CSV sink reports unmappable columns inside the response it was handed ("error": {"csv": ..} or
    // "csv_error"): with a combined policy the other sink and the caller may or may not see that key,
    // depending on the order of the sinks; it is not part of the search response
    let any_csv = [Some(out), case.world.out2.as_ref()].iter().flatten().any(|o| matches!(o.format, OutFormat::Csv { .. }));
    let sinks: Vec<(&crate::world::OutFile, &Option<Vec<u8>>)> = match &case.world.out2 {
        Some(o2) => {
            bump("combined_sinks", 1);
            vec![(out, &obs.out_file), (o2, &obs.out_file2)]
        }
        None => vec![(out, &obs.out_file)],
    };
    let mut earlier_csv: Vec<Vec<(String, Value)>> = vec![];
    for (si, (sink, data)) in sinks.iter().enumerate() {
        if si > 0 {
            if let OutFormat::Csv { mapping, .. } = &sinks[si - 1].0.format {
                earlier_csv.push(mapping.clone());
            }
        }
        let exp_sink: Vec<Value> = expected_by_batch.iter().enumerate().filter(|(bi, _)| cli || mask_of(*bi) & (1 << si) != 0).flat_map(|(_, e)| e.iter().cloned()).collect();
        let ret_sink: Vec<Value> = returned_by_batch.iter().enumerate().filter(|(bi, _)| cli || mask_of(*bi) & (1 << si) != 0).flat_map(|(_, e)| e.iter().cloned()).collect();
        let never_used = !cli && (0..case.batches.len()).all(|bi| mask_of(bi) & (1 << si) == 0);
        if never_used {
            // no run named this file: it must not exist (or be untouched)
            if data.as_ref().map_or(false, |d| !d.is_empty() && !sink.preexisting) {
                v.push(Violation { class: "file-written-by-wrong-run".into(), detail: format!("the file of sink {} was written although no run() named it in its output policy", si) });
            }
            continue;
        }
        let before = v.len();
        let lowercased = !(case.world.policies_at_run_level || case.world.per_run_sinks.is_some());
        judge_sink(sink, lowercased, &earlier_csv, data, si, &exp_sink, &ret_sink, all_ok, relaxed, hard_fired, any_csv, persist, &mut v, &mut bump);
        if relaxed && !cli {
            // run() calls that returned Ok are acknowledged: a failed write before or after them may cut a row, and
            // the next row is then glued onto the cut one (one damaged line per fault) - but their records are
            // never removed from the file again
            let ok_exp: Vec<Value> = expected_by_batch
                .iter()
                .enumerate()
                .filter(|(bi, _)| mask_of(*bi) & (1 << si) != 0 && matches!(obs.runs.get(*bi), Some(Some(Ok(_)))))
                .flat_map(|(_, e)| e.iter().cloned())
                .collect();
            if let Some(missing) = count_missing(sink, lowercased, data, &ok_exp) {
                bump("acknowledged_records_checked_after_hard_fault", ok_exp.len() as u64);
                if missing > hard_fired {
                    v.push(Violation { class: "hard-fault-lost-acknowledged".into(), detail: format!("{} records of run() calls that returned Ok are no longer in the file of sink {} after {} hard fault(s)", missing, si, hard_fired) });
                }
            }
        }
        if hard_read_fired > 0 {
            // a failed read of the query file may cost the row that was being read - one query per fault, never more,
            // and never anything else
            bump("query_file_read_faults", hard_read_fired);
            let lost: Vec<usize> = (before..v.len()).filter(|i| v[*i].class == "file-lost" || v[*i].class == "csv-row-missing").collect();
            let n_lost: u64 = lost.iter().map(|i| if v[*i].class == "csv-row-missing" { v[*i].detail.split(' ').next().and_then(|n| n.parse::<u64>().ok()).unwrap_or(u64::MAX) } else { 1 }).sum();
            // (one lost row is one lost query, which may be owed several records after grid expansion)
            let mut per_query: Vec<u64> = case.batches.iter().enumerate().flat_map(|(bi, b)| (0..b.len()).map(move |qi| (bi, qi))).map(|(bi, qi)| n_ok(bi, qi) as u64).collect();
            per_query.sort_by(|a, b| b.cmp(a));
            let allowance: u64 = per_query.iter().take(hard_read_fired as usize).sum();
            if n_lost <= allowance {
                for i in lost.into_iter().rev() {
                    v.remove(i);
                }
            }
        }
    }
    // the response handed back still carries what the isolated response carries
    if persist && all_ok {
        let mut by_req: BTreeMap<String, Vec<&Value>> = BTreeMap::new();
        for r in &returned_search {
            by_req.entry(essence(r).request).or_default().push(r);
        }
        for e in &expected_ref {
            let ee = essence(e);
            if let (Some(err), Some(rs)) = (&ee.error, by_req.get(&ee.request)) {
                bump("error_responses_written", 1);
                if !rs.iter().any(|r| canon(r).contains(&serde_json::to_string(err).unwrap().trim_matches('"').to_string())) {
                    v.push(Violation { class: "error-replaced".into(), detail: format!("the response returned for {} no longer carries its search error {:?}: {}", ee.request, err, canon(rs[0])) });
                }
            }
            if let Some(rs) = by_req.get(&ee.request) {
                if let Some(obj) = e.as_object() {
                    for k in obj.keys() {
                        if VOLATILE_KEYS.contains(&k.as_str()) {
                            continue;
                        }
                        if !rs.iter().any(|r| r.get(k).is_some()) {
                            v.push(Violation { class: "field-removed".into(), detail: format!("the response returned for {} lost its field {:?}", ee.request, k) });
                        }
                    }
                }
            }
        }
    }
    (v, reach, nontrivial)
}

impl Check for C19 {
    fn id(&self) -> &'static str {
        "C19"
    }
    fn families(&self, _tier: Tier) -> Vec<&'static str> {
        vec!["schedule", "legal-faults", "cli", "legal-faults", "hard-faults", "schedule", "rotation", "hard-faults", "cli-hard", "legal-faults"]
    }
    fn default_runs(&self, tier: Tier) -> u64 {
        match tier {
            Tier::Quick => 9000,
            Tier::Thorough => 150000,
        }
    }
    fn gen(&self, seed: u64, family: &str, tier: Tier) -> Case {
        let mut c = gen_batch_case("C19", seed, if family == "schedule" { "schedule" } else { "faults" }, tier, true);
        c.family = family.to_string();
        let mut r = sim::Rng::new(seed ^ 0xC19);
        c.simcfg.fault_paths = vec!["/sim/out".into()];
        if family.starts_with("cli") {
            // the command-line runner: newline-delimited query file read in chunks, one run() per chunk,
            // all appending to the same output file(s); the query file is read under short reads / EINTR
            let total: usize = c.batches.iter().map(|b| b.len()).sum();
            let chunk = match r.below(4) {
                0 => 1,
                1 => r.range(1, total.max(1) as u64) as i64,
                2 => r.range(1, 5) as i64,
                _ => 1000,
            };
            c.world.per_run_sinks = None;
            // (the runner builds the application inside the explored phase, and an application that finds the wall
            // clock set back while it loads refuses to start: keep that to a few runs)
            if seed % 8 != 0 {
                c.simcfg.wall_step_rate = 0.0;
            }
            let mut garbage: Vec<Value> = vec![];
            if r.chance(0.35) {
                for _ in 0..r.range(1, 3) {
                    garbage.push(json!([r.below(total.max(1) as u64), r.below(4)]));
                }
            }
            c.params = json!({"cli": {"garbage": garbage, "chunksize": chunk, "crlf": r.chance(0.2), "no_final_newline": r.chance(0.3)}});
            c.simcfg.fault_paths = vec!["/sim/out".into(), "/sim/queries".into()];
            if r.chance(0.3) {
                // the query file is a FIFO / process substitution: its size reads as 0, it cannot be seeked
                c.simcfg.pipe_like_paths = vec!["/sim/queries".into()];
            }
        }
        if family == "rotation" {
            // histories around the file's name (round 6): between two run() calls the response file is rotated
            // away (renamed, nothing created in its place), rewritten in place (same content, another file under
            // the name) or deleted. "Repeated runs appending to the same file": the file of that name
            let all: Vec<Value> = c.batches.iter().flatten().cloned().collect();
            let k = r.range(2, 3) as usize;
            let mut parts: Vec<Vec<Value>> = vec![vec![]; k];
            for (i, q) in all.into_iter().enumerate() {
                parts[i % k].push(q);
            }
            c.batches = parts.into_iter().filter(|b| !b.is_empty()).collect();
            c.world.out2 = None;
            c.world.per_run_sinks = None;
            if let Some(o) = &mut c.world.out {
                o.preexisting = false;
            }
            let ops: Vec<u64> = (1..c.batches.len()).map(|_| *r.pick(&[1u64, 2, 3, 2, 1, 0])).collect();
            c.params = json!({"rotate": ops});
            c.simcfg.faults = 0;
        }
        match family {
            "cli" => {
                c.simcfg.faults = sim::F_SHORT_WRITE | sim::F_EINTR_WRITE | sim::F_SHORT_READ | sim::F_EINTR_READ;
                c.simcfg.io_fault_rate = *r.pick(&[0.0, 0.05, 0.2, 0.5]);
            }
            "cli-hard" => {
                let kind = *r.pick(&[sim::F_EIO_WRITE, sim::F_ENOSPC_WRITE, sim::F_EOPEN, sim::F_EIO_READ, sim::F_EIO_READ]);
                if kind == sim::F_EIO_READ {
                    // one read of the query file fails once (a medium that stays unreadable makes the runner read
                    // forever - outside the listed properties, see DESIGN.md 7)
                    c.simcfg.fault_paths = vec!["/sim/queries".into()];
                    c.simcfg.faults = sim::F_SHORT_READ | sim::F_EIO_READ;
                    c.simcfg.no_sticky_faults = true;
                    c.simcfg.io_fault_rate = *r.pick(&[0.3, 0.9]);
                } else {
                    c.simcfg.fault_paths = vec!["/sim/out".into()];
                    c.simcfg.faults = sim::F_SHORT_WRITE | sim::F_EINTR_WRITE | kind;
                    c.simcfg.io_fault_rate = *r.pick(&[0.05, 0.2]);
                }
                c.simcfg.max_hard_faults = 1;
            }
            "legal-faults" => {
                c.simcfg.faults = sim::F_SHORT_WRITE | sim::F_EINTR_WRITE;
                c.simcfg.io_fault_rate = *r.pick(&[0.05, 0.2, 0.5]);
            }
            "hard-faults" => {
                // histories matter here (a failed write in one run, more runs on the same file afterwards):
                // split single-run cases into two or three runs half of the time
                if c.batches.len() == 1 && c.batches[0].len() >= 2 && r.chance(0.5) {
                    let all = c.batches.remove(0);
                    let k = r.range(2, 3.min(all.len() as u64)) as usize;
                    let mut parts: Vec<Vec<Value>> = vec![vec![]; k];
                    for (i, q) in all.into_iter().enumerate() {
                        parts[i % k].push(q);
                    }
                    c.batches = parts.into_iter().filter(|b| !b.is_empty()).collect();
                    if let Some(m) = &mut c.world.per_run_sinks {
                        m.resize(c.batches.len(), 3);
                    }
                }
                c.simcfg.faults = sim::F_SHORT_WRITE | sim::F_EINTR_WRITE | *r.pick(&[sim::F_EIO_WRITE, sim::F_ENOSPC_WRITE, sim::F_EIO_WRITE, sim::F_ENOSPC_WRITE, sim::F_EOPEN, sim::F_ZERO_WRITE]);
                c.simcfg.io_fault_rate = *r.pick(&[0.05, 0.2]);
                c.simcfg.max_hard_faults = 1;
            }
            _ => {
                c.simcfg.faults = 0;
            }
        }
        c
    }
    fn run(&self, case: &Case, fatal_fd: i32) -> ChildResult {
        let probe = StageProbe { batches: case.batches.clone(), parallelism: case.run_parallelism.unwrap_or(case.world.parallelism), out: Value::Null };
        let mut obs = execute(case, ExecOpts { reference: true, trace: false, log_clock: false, explore_build: false }, Box::new(probe), fatal_fd);
        let mut rotation_violations: Vec<Violation> = vec![];
        if case.family == "rotation" {
            // nothing may be written to a file after it lost the name; the records of all runs are then judged as
            // one whole: what each rotated / deleted file held when it lost the name, then the file of that name
            if let Some(d) = &obs.extra_rotation_damage {
                rotation_violations.push(Violation { class: "written-to-replaced-file".into(), detail: d.clone() });
            }
            let mut whole: Vec<u8> = vec![];
            let mut header: Option<Vec<u8>> = None;
            let csv = matches!(case.world.out.as_ref().map(|o| &o.format), Some(crate::world::OutFormat::Csv { .. }));
            let mut parts: Vec<Vec<u8>> = vec![];
            for (then, now) in obs.rotated.iter() {
                if then != now {
                    rotation_violations.push(Violation { class: "written-to-rotated-file".into(), detail: format!("{} bytes were written to a response file after it had been rotated away / deleted (the run() call named the file, not the handle)", now.len().saturating_sub(then.len())) });
                }
                parts.push(then.clone());
            }
            parts.push(obs.out_file.clone().unwrap_or_default());
            for (i, part) in parts.iter().enumerate() {
                let mut body: &[u8] = part;
                if csv && !part.is_empty() {
                    let eol = part.iter().position(|b| *b == b'\n').map_or(part.len(), |p| p + 1);
                    if header.is_none() {
                        header = Some(part[..eol].to_vec());
                    } else if header.as_deref() == Some(&part[..eol]) {
                        body = &part[eol..]; // a new file starts with the header again: one header per file
                    } else {
                        rotation_violations.push(Violation { class: "csv-no-header-after-rotation".into(), detail: format!("file {} of the history does not start with the header", i) });
                    }
                }
                whole.extend_from_slice(body);
            }
            obs.out_file = Some(whole);
        }
        let (mut violations, mut reach, nontrivial) = judge(case, &obs);
        violations.extend(rotation_violations);
        if case.family == "rotation" {
            reach.insert("rotations".into(), obs.rotated.len() as u64);
            reach.insert("rotation_histories".into(), 1);
        }
        reach.insert("preemptions".into(), obs.stats.preemptions);
        world_reach(&case.world, &mut reach);
        reach.insert("sim_writes".into(), obs.stats.sim_writes);
        let sig = fnv64(&format!("{}|{}|{:?}", serde_json::to_string(&case.batches).unwrap(), obs.stats.sched_hash, obs.recorded.faults.len()));
        ChildResult {
            violations,
            nontrivial,
            signature: sig,
            reach,
            sample: json!({"seed": case.seed, "family": case.family, "workers": case.workers, "parallelism": case.world.parallelism, "persist": case.world.persist,
                "out": case.world.out, "batch_sizes": case.batches.iter().map(|b| b.len()).collect::<Vec<_>>(), "faults_fired": obs.stats.faults,
                "file_head": obs.out_file.as_ref().map(|d| String::from_utf8_lossy(&d[..d.len().min(300)]).to_string())}),
            stats: Some(obs.stats.clone()),
            recorded: Some(obs.recorded.clone()),
            harness_error: None,
        }
    }
    fn rule(&self) -> String {
        "each evaluation = one generated world and batch (as C06) with file output: newline-delimited JSON, or CSV with a generated mapping (paths, sums, optionals, mixed-case names, free-text cells with commas / line breaks; sorted or not); flush rate none/1/3/1000; file pre-existing or not; a single file or a combined policy of two files; 1-3 run() calls appending to the same file(s), each possibly naming its own sinks; both persistence policies; families: schedule only / legal faults (short writes, EINTR) / hard faults (EIO or ENOSPC at one write, one-shot or sticky, or a failing open; relaxed oracle) / cli and cli-hard (command_line_runner: configuration file + newline-delimited query file read in chunks of 1..1000 rows - LF or CRLF, with or without final newline, with rows that are no query - under short reads, EINTR and one failing read; one run() per chunk). Preemption before and after every write. The CSV file is read without prescribing cell escaping. non-trivial = more than one record expected; distinct = distinct (batch, schedule-hash, fault count) Round 6: family rotation = 2-3 run() calls with the response file rotated away (renamed), rewritten in place (same content, another file under the name) or deleted in between - descriptors follow the file on the simulated disk; nothing may be written to a file after it lost the name, a new file starts with the CSV header again, and the records of all runs (what each file held when it lost the name, then the file of that name) are judged as one whole. Rounds 8-9: the two files of a combined policy carry generated names (the second may sort before the first; one stem for two formats); with two files and two batches two caller threads may each write a file of their own at the same time; a JSON record is compared with the returned response including what a CSV sink configured before it recorded in the response; queries submitted again; per-run parallelism; the binding interface.".into()
    }
    fn assumptions(&self) -> Vec<String> {
        vec![
            "records are compared with the isolated (reference) responses matched by request, numbers with relative tolerance 1e-9; in persist mode also byte-for-byte (canonical JSON) with the returned responses".into(),
            "responses of queries rejected by input plugins are returned to the caller but never handed to the writer by design; the file is compared with the search-stage responses".into(),
            "CSV cells of generated worlds contain no commas or newlines".into(),
            "hard-fault family only demands: no panic, no hang, no duplicated record, at most one damaged line per injected hard fault".into(),
        ]
    }
    fn judge_abnormal(&self, _case: &Case, what: &str) -> Option<Violation> {
        if what.contains("deadlock") {
            Some(Violation { class: "deadlock".into(), detail: what.into() })
        } else if what.contains("budget") {
            Some(Violation { class: "unbounded".into(), detail: what.into() })
        } else {
            Some(Violation { class: format!("abort:{}", what), detail: what.into() })
        }
    }
}
