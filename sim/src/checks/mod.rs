pub mod c06;
pub mod c08;
pub mod c10;
pub mod c12;
pub mod c15;
pub mod c19;
pub mod common;

use crate::driver::Check;

pub fn all() -> Vec<Box<dyn Check>> {
    vec![Box::new(c06::C06), Box::new(c19::C19), Box::new(c15::C15), Box::new(c12::C12), Box::new(c10::C10), Box::new(c08::C08)]
}
pub fn by_id(id: &str) -> Option<Box<dyn Check>> {
    all().into_iter().find(|c| c.id() == id)
}
