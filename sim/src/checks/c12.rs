//! C12 — no query batch can make the application panic, abort or run without bound.
//!
//! What simulation contributes: (i) "without bound" is a deterministic budget in simulated steps
//! and allocated bytes, (ii) a panic or deadlock in any worker under any explored schedule is
//! observed at the run() boundary, (iii) isolation: every other query of the batch still gets the
//! response of its isolated run. The breadth over malformed JSON is ordinary structure-aware input
//! generation and is reported as such in the evidence.

use super::c06::StageProbe;
use super::common::*;
use crate::driver::{fnv64, Check, ChildResult, Tier, Violation};
use crate::oracle::*;
use crate::scenario::{execute, Case, ExecOpts, Obs};
use crate::sim::{self, Rng};
use crate::world::World;
use serde_json::{json, Value};
use std::collections::BTreeMap;

pub struct C12;

fn weird_scalar(r: &mut Rng) -> Value {
    match r.below(17) {
        14 => json!("\u{e9}".repeat(1000 + r.below(3000) as usize)), // long, not ASCII (an error text that quotes it must cut at a character)
        15 => json!(["\u{fc}".repeat(2000 + r.below(100) as usize), "x".repeat(r.below(5000) as usize)]),
        16 => json!("x".repeat(r.below(6000) as usize)),
        0 => Value::Null,
        1 => json!(true),
        2 => json!(-1),
        3 => json!(1.5),
        4 => json!("text"),
        5 => json!([]),
        6 => json!({}),
        7 => json!(u64::MAX),
        8 => json!(1e300),
        9 => json!(-1e300),
        10 => json!(i64::MIN),
        11 => json!(""),
        12 => json!([1, 2]),
        _ => json!(0),
    }
}

/// mutate a valid query into something a user might send by mistake
fn mutate(r: &mut Rng, q: &Value, w: &World, pc: &PluginChoice) -> (Value, &'static str) {
    let mut m = q.clone();
    let keys: Vec<String> = m.as_object().map(|o| o.keys().cloned().collect()).unwrap_or_default();
    match r.below(25) {
        0 => (weird_scalar(r), "non-object"),
        1 => (json!([q.clone()]), "array-wrapped"),
        2 => {
            if let (Some(o), false) = (m.as_object_mut(), keys.is_empty()) {
                let k = r.pick(&keys).clone();
                o.remove(&k);
            }
            (m, "field-removed")
        }
        3 | 4 => {
            if !keys.is_empty() {
                let k = r.pick(&keys).clone();
                m[k] = weird_scalar(r);
            }
            (m, "field-ill-typed")
        }
        5 => {
            m["grid_search"] = json!({});
            (m, "grid-empty-object")
        }
        6 => {
            m["grid_search"] = json!({"a": []});
            (m, "grid-empty-array")
        }
        7 => {
            m["grid_search"] = json!({"a": 5, "b": "x"});
            (m, "grid-no-arrays")
        }
        8 => {
            m["grid_search"] = weird_scalar(r);
            (m, "grid-ill-typed")
        }
        9 => {
            m["grid_search"] = json!({"a": [1, 2], "b": [], "c": [[1], [2]]});
            (m, "grid-mixed")
        }
        10 => {
            m["grid_search"] = json!({"x": [{"grid_search": {"y": [1]}}]});
            (m, "grid-nested")
        }
        11 => {
            let mut wm = serde_json::Map::new();
            for (k, _) in &w.weights {
                wm.insert(k.clone(), json!(0));
            }
            m["weights"] = Value::Object(wm);
            (m, "zero-weights")
        }
        12 => {
            m["weights"] = weird_scalar(r);
            (m, "weights-ill-typed")
        }
        13 => {
            m["query_weight_estimate"] = weird_scalar(r);
            (m, "weight-estimate-ill-typed")
        }
        14 => {
            m["model_name"] = json!("no_such_vehicle");
            (m, "unknown-vehicle")
        }
        15 => {
            m["k"] = weird_scalar(r);
            (m, "k-ill-typed")
        }
        16 => {
            m["k"] = json!(if r.chance(0.8) { r.below(2) } else { r.below(4) });
            (m, "k-small")
        }
        17 => {
            m["weight_factor"] = weird_scalar(r);
            (m, "weight-factor-ill-typed")
        }
        18 => {
            for k in ["origin_x", "origin_y", "destination_x", "destination_y"] {
                if m.get(k).is_some() || pc.rtree {
                    m[k] = json!(*r.pick(&[500.0, -500.0, 1e300, 0.0, 90.0, -180.0]));
                }
            }
            (m, "coordinates-out-of-range")
        }
        19 => {
            m["state_features"] = if r.chance(0.5) { weird_scalar(r) } else { json!({"distance": {"time_unit": "hours", "initial": 0.0}, "nope": {"distance_unit": "miles", "initial": 1.0}}) };
            (m, "state-features")
        }
        20 => {
            let nv = w.nv() as u64;
            for k in ["origin_vertex", "destination_vertex", "origin_edge", "destination_edge"] {
                if m.get(k).is_some() {
                    m[k] = json!(*r.pick(&[nv, nv + 1, w.ne() as u64, w.ne() as u64 + 7, 1 << 40, u64::MAX]));
                }
            }
            (m, "ids-out-of-range")
        }
        21 => {
            m["vehicle_rates"] = weird_scalar(r);
            (m, "vehicle-rates-ill-typed")
        }
        22 => {
            // as deep as a JSON text may be nested (serde_json's parser stops at 128 levels)
            let mut v = json!(1);
            for _ in 0..120 {
                v = if r.chance(0.5) { json!([v]) } else { json!({"n": v}) };
            }
            let k = if keys.is_empty() || r.chance(0.5) { "extra".to_string() } else { r.pick(&keys).clone() };
            m[k] = v;
            (m, "deeply-nested")
        }
        23 => {
            let mut rm = serde_json::Map::new();
            for (k, _) in &w.weights {
                rm.insert(k.clone(), json!({"type": "factor", "factor": *r.pick(&[0.0, -1.0, 1e300])}));
            }
            m["vehicle_rates"] = Value::Object(rm);
            m["cost_aggregation"] = json!(*r.pick(&["mul", "sum"]));
            (m, "degenerate-rates")
        }
        _ => {
            m["cost_aggregation"] = weird_scalar(r);
            (m, "cost-aggregation-ill-typed")
        }
    }
}

fn gen(seed: u64, family: &str, tier: Tier) -> Case {
    let mut r = Rng::new(seed ^ fnv64("C12"));
    let mut w = World::gen_graph(&mut r, &graph_params(tier));
    gen_traversal(&mut r, &mut w);
    let energy = !family.starts_with("yens-known") && r.chance(0.15);
    if energy {
        // vehicles: a query must name one ("unknown vehicle names" are part of the property)
        gen_energy(&mut r, &mut w);
    }
    gen_extras(&mut r, &mut w);
    gen_algorithm(&mut r, &mut w, true, true);
    gen_termination(&mut r, &mut w);
    let mut pc = gen_plugins(&mut r, &mut w);
    if family == "clock" {
        let rt = |r: &mut Rng| json!({"type": "query_runtime", "limit": *r.pick(&["00:00:01", "00:01:00", "00:10:00"]), "frequency": *r.pick(&[1u64, 2, 3, 7, 50])});
        w.termination = match r.below(4) {
            0 => rt(&mut r),
            _ => {
                let mut ms = vec![rt(&mut r)];
                if r.chance(0.7) {
                    ms.push(json!({"type": "iterations", "limit": r.below(30)}));
                }
                if r.chance(0.5) {
                    ms.push(json!({"type": "solution_size", "limit": r.below(30)}));
                }
                if r.chance(0.2) {
                    ms.push(rt(&mut r));
                }
                r.shuffle(&mut ms);
                json!({"type": "combined", "models": ms})
            }
        };
    }
    if family.starts_with("yens-known") {
        // directed at the two recorded Yen's-algorithm findings, so that every run of the check meets them
        w.algorithm = json!({"type": "yens", "k": r.range(2, 3), "underlying": {"type": "dijkstra"}});
        w.termination = json!({"type": "query_runtime", "limit": "00:10:00", "frequency": 100000});
        w.input_plugins = vec![];
        w.headings = None;
        w.road_classes = None;
        w.uuid_plugin = false;
        w.edge_oriented = false;
        pc = PluginChoice { override_heavy: false, grid: false, lb: None, inject: false, rtree: false, edge_rtree: false };
        // tiny fixed shapes that are certain to meet each finding: a single edge (best route of one
        // edge: the `len() - 2` underflow) or a chain of three edges (a pass that accepts no candidate)
        let n = if family == "yens-known-panic" { 2 } else { 4 };
        w.coords = (0..n).map(|i| (crate::world::q6(-105.0 + 0.01 * i as f64), 39.7)).collect();
        w.edges = (0..n - 1).map(|i| (i, i + 1, crate::world::q6(900.0 + 10.0 * i as f64))).collect();
        w.speeds = vec![50.0; n - 1];
        w.grades = vec![0.0; n - 1];
    }
    w.edge_oriented = pc.edge_rtree || (!pc.rtree && !family.starts_with("yens-known") && r.chance(0.25));
    w.parallelism = if r.chance(0.02) && !family.starts_with("yens-known") { 0 } else { r.range(1, 8) as usize };
    w.persist = true;
    w.out = None;
    if family == "disk-full" || (!family.starts_with("yens-known") && r.chance(0.25)) {
        // responses also go to a file (any format, any flush rate): a hang or panic in the writer is the batch's
        // (newline-delimited JSON: a CSV sink records its unmappable columns inside the response it is handed,
        // which is C19's business)
        let mut o = gen_out_file(&mut r, &w);
        o.format = if r.chance(0.3) { crate::world::OutFormat::JsonArray } else { crate::world::OutFormat::Json };
        o.preexisting = false;
        w.out = Some(o);
    }
    let nq = if r.chance(0.08) { 0 } else { r.range(1, 12) as usize };
    let mut batch = vec![];
    let mut kinds: Vec<&'static str> = vec![];
    for qid in 0..nq {
        let (mut q, _) = gen_query(&mut r, &w, &pc, qid, true);
        if energy && q.is_object() {
            if let crate::world::Traversal::Energy { vehicles, .. } = &w.traversal {
                match r.below(10) {
                    0 => {}
                    1 => q["model_name"] = json!("no_such_vehicle"),
                    2 => q["model_name"] = json!(17),
                    _ => q["model_name"] = json!(r.pick(vehicles).name),
                }
                if r.chance(0.3) {
                    q["starting_soc_percent"] = json!(*r.pick(&[50.0, 0.0, 100.0, -1.0, 1000.0, 1e300]));
                }
                if let Some(m) = q.as_object_mut() {
                    m.remove("weights");
                    m.remove("vehicle_rates");
                    m.remove("state_features");
                }
            }
        }
        if w.edge_oriented && q.is_object() {
            let ne = w.ne().max(1) as u64;
            q["origin_edge"] = json!(r.below(ne));
            if q.get("destination_vertex").is_some() {
                q["destination_edge"] = json!(r.below(ne));
            }
        }
        if (family == "malformed" || family == "clock") && q.is_object() && r.chance(if family == "clock" { 0.3 } else { 0.6 }) {
            let (mq, kind) = mutate(&mut r, &q, &w, &pc);
            kinds.push(kind);
            batch.push(mq);
        } else {
            kinds.push("plain");
            batch.push(q);
        }
    }
    if family.starts_with("yens-known") {
        batch = vec![json!({"_qid": 0, "origin_vertex": 0, "destination_vertex": w.nv() - 1})];
        kinds = vec!["plain"];
    }
    if nq == 0 && batch.is_empty() {
        kinds.push("empty-batch");
    }
    let mut simcfg = gen_simcfg(&mut r);
    simcfg.max_steps = 1_500_000;
    simcfg.max_alloc_bytes = 256 << 20;
    if family == "clock" {
        // the clock jumps past the runtime budget while searches are in flight (a stalled machine, a suspended
        // laptop): queries may be stopped by their limits at any loop turn, in any combination with the other
        // limits - every one must still be answered, nothing may panic (round 6)
        simcfg.faults = sim::F_CLOCK_JUMP;
        simcfg.clock_fault_rate = *r.pick(&[0.002, 0.01, 0.05]);
        simcfg.clock_jump_ns = *r.pick(&[1_500_000_000u64, 61_000_000_000, 3_600_000_000_000]);
    }
    if family == "disk-full" {
        // the disk fills up (or the medium breaks) under the response file and stays that way: run() may fail,
        // it must still return
        simcfg.faults = sim::F_SHORT_WRITE | sim::F_EINTR_WRITE | *r.pick(&[sim::F_ENOSPC_WRITE, sim::F_ENOSPC_WRITE, sim::F_EIO_WRITE, sim::F_ZERO_WRITE]);
        simcfg.io_fault_rate = *r.pick(&[0.05, 0.3, 0.9]);
        simcfg.max_hard_faults = 1;
        simcfg.fault_paths = vec!["/sim/out".into()];
    }
    Case {
        check: "C12".into(),
        seed,
        family: family.to_string(),
        world: w,
        batches: vec![batch],
        workers: r.range(1, 6) as usize,
        // (a parallelism of 0 is a configuration mistake: run() may refuse the batch, it must not panic or hang)
        run_parallelism: if r.chance(0.03) { Some(0) } else if r.chance(0.2) { Some(r.range(1, 8) as usize) } else { None },
        simcfg,
        recorded: None,
        // (one case in seven goes through the language-binding interface: TOML configuration, JSON strings)
        params: if crate::sim::Rng::new(seed ^ crate::driver::fnv64("bindings")).chance(0.15) { json!({"kinds": kinds, "via_bindings": true}) } else { json!({"kinds": kinds}) },
    }
}

/// does `resp.request` echo the original query?
fn echoes(request: &Value, q: &Value) -> bool {
    // keys a grid-search option may legitimately overwrite: the axis names and the keys of object options
    // an array is a nested batch: each of its elements has to be answered
    if let Value::Array(items) = q {
        if !items.is_empty() && !matches!(request, Value::Array(_)) {
            return items.iter().any(|i| echoes(request, i));
        }
    }
    // keys owned by input plugins (they overwrite whatever the user put there)
    let mut overridable: Vec<String> = vec!["grid_search".into(), "query_weight_estimate".into(), "injected".into(), "origin_vertex".into(), "destination_vertex".into(), "origin_edge".into(), "destination_edge".into()];
    if let Some(g) = q.get("grid_search").and_then(|g| g.as_object()) {
        for (k, opts) in g {
            overridable.push(k.clone());
            if let Some(a) = opts.as_array() {
                for o in a {
                    if let Some(m) = o.as_object() {
                        overridable.extend(m.keys().cloned());
                    }
                }
            }
        }
    }
    match (request, q) {
        (Value::Object(r), Value::Object(o)) => o.iter().all(|(k, v)| overridable.contains(k) || r.get(k).map_or(false, |x| json_close(x, v, 1e-12))),
        (a, b) => json_close(a, b, 1e-12),
    }
}

pub fn panic_class(p: &crate::scenario::PanicInfo) -> String {
    let file = p.location.rsplit_once(':').map(|x| x.0).unwrap_or(&p.location);
    // wherever the repository is checked out: identify the file from its crate directory on
    let file = match file.find("routee-compass") {
        Some(i) => &file[i..],
        None => file,
    };
    let file = match file.find("/.cargo/registry/src/") {
        Some(i) => file[i + 21..].splitn(2, '/').nth(1).unwrap_or(file),
        None => file,
    };
    // digits (lengths, indices, ids) are not part of the identity of a panic site
    let mut msg = String::new();
    for c in p.message.chars() {
        if c.is_ascii_digit() {
            if !msg.ends_with('#') {
                msg.push('#');
            }
        } else {
            msg.push(c);
        }
        if msg.len() >= 48 {
            break;
        }
    }
    format!("panic@{}|{}", file, msg)
}

fn judge(case: &Case, obs: &Obs) -> (Vec<Violation>, BTreeMap<String, u64>, bool) {
    let mut v: Vec<Violation> = vec![];
    let mut reach: BTreeMap<String, u64> = BTreeMap::new();
    let mut bump = |k: &str, n: u64| *reach.entry(k.to_string()).or_insert(0) += n;
    if case.params.get("via_bindings").and_then(|x| x.as_bool()).unwrap_or(false) && case.params.get("cli").map_or(true, |c| !c.is_object()) {
        bump("cases_through_the_binding_interface", 1);
    }
    if let Some(kinds) = case.params.get("kinds").and_then(|k| k.as_array()) {
        for k in kinds {
            bump(&format!("kind:{}", k.as_str().unwrap_or("?")), 1);
        }
    }
    if let Some(e) = &obs.build_error {
        v.push(Violation { class: "build-failed".into(), detail: format!("application failed to build on a valid world: {}", e) });
        return (v, reach, false);
    }
    let batch = &case.batches[0];
    for p in &obs.panics {
        v.push(Violation { class: panic_class(p), detail: format!("panic: {} at {} (thread {:?}); batch {}", p.message, p.location, p.thread, serde_json::to_string(batch).unwrap().chars().take(500).collect::<String>()) });
    }
    let hard_fired: u64 = obs.stats.faults.iter().filter(|(k, _)| *k == "eio_write" || *k == "enospc_write" || *k == "zero_write").map(|(_, n)| *n).sum();
    let zero_parallelism = case.run_parallelism == Some(0) || (case.run_parallelism.is_none() && case.world.parallelism == 0);
    if zero_parallelism {
        bump("parallelism_zero", 1);
    }
    let run = match obs.runs.get(0) {
        Some(Some(Ok(r))) if zero_parallelism => {
            // whatever it answers with, it returned
            let _ = r;
            return (v, reach, true);
        }
        Some(Some(Err(_))) if zero_parallelism => return (v, reach, true),
        Some(Some(Ok(r))) => r.clone(),
        Some(Some(Err(_))) if hard_fired > 0 => {
            // the response file could not be written: failing is the right answer, and it did return
            bump("run_failed_on_full_disk", 1);
            return (v, reach, true);
        }
        Some(Some(Err(e))) => {
            v.push(Violation { class: format!("run-error|{}", e.chars().take(40).map(|c| if c.is_ascii_digit() { '#' } else { c }).collect::<String>()), detail: format!("run() failed as a whole because of a user query: {} ; batch {}", e, serde_json::to_string(batch).unwrap().chars().take(500).collect::<String>()) });
            return (v, reach, true);
        }
        _ => return (v, reach, true),
    };
    if case.family == "history" {
        bump("histories_of_two_runs", 1);
        match obs.runs.get(1) {
            Some(Some(Ok(r2))) => {
                if r2.len() < case.batches.get(1).map_or(0, |b| b.len()) {
                    v.push(Violation { class: "history-later-run-lost".into(), detail: format!("the second run() of the history returned {} responses for {} plain queries", r2.len(), case.batches[1].len()) });
                }
            }
            Some(Some(Err(e))) if hard_fired == 0 => v.push(Violation { class: "history-later-run-error".into(), detail: format!("the second run() of the history (plain queries) failed as a whole: {}", e) }),
            _ => {} // (a panic is reported through the panic list; a hang through the budget)
        }
    }
    bump("responses", run.len() as u64);
    // every query is answered by a response that echoes it
    for q in batch {
        let direct = run.iter().any(|resp| resp.get("request").map_or(false, |rq| json_close(rq, q, 1e-12) || echoes(rq, q)));
        // an array of objects is a nested batch: answered when each element is
        let nested = match q {
            // (an empty array is an empty nested batch: nothing to answer)
            Value::Array(items) => items.iter().all(|i| run.iter().any(|resp| resp.get("request").map_or(false, |rq| echoes(rq, i)))),
            _ => false,
        };
        // a value that is not a JSON object cannot be carried in "request" by the invariant-error
        // path; it is displayed inside the error text instead
        let shown = |x: &Value| run.iter().any(|resp| resp.get("error").and_then(|e| e.as_str()).map_or(false, |e| e.contains(&serde_json::to_string_pretty(x).unwrap_or_default()) || e.contains(&x.to_string())));
        // (an array holding non-objects is one malformed query: the error response displays the offending element)
        let in_text = !q.is_object() && (shown(q) || q.as_array().map_or(false, |items| items.iter().any(|i| !i.is_object() && shown(i))));
        if !direct && !nested && !in_text {
            v.push(Violation { class: "unanswered".into(), detail: format!("no response echoes the query {}", serde_json::to_string(q).unwrap().chars().take(300).collect::<String>()) });
        }
    }
    for resp in &run {
        if resp.get("request").is_none() {
            v.push(Violation { class: "no-request".into(), detail: format!("response without request: {}", resp.to_string().chars().take(300).collect::<String>()) });
        }
        if resp.get("error").is_some() {
            bump("error_responses", 1);
        }
    }
    // isolation: the batch as a whole equals the union of the isolated runs
    if let Some(refs) = obs.reference.get(0) {
        if refs.iter().all(|x| x.is_some()) {
            // rates of 0 / -1 / 1e300 make the cost arithmetic leave the finite range, where the result depends on
            // the order of the factors, i.e. on the state-vector slot order, i.e. on the hash seed of the
            // application instance - not on the batch. Such queries are still checked for an answer above, but
            // are not compared with another instance's answer.
            let kinds: Vec<&str> = case.params.get("kinds").and_then(|k| k.as_array()).map(|a| a.iter().map(|k| k.as_str().unwrap_or("")).collect()).unwrap_or_default();
            let skip: Vec<u64> = batch.iter().enumerate().filter(|(i, _)| kinds.get(*i) == Some(&"degenerate-rates")).filter_map(|(_, q)| q.get("_qid").and_then(|x| x.as_u64())).collect();
            // (family clock: a query that the jumping clock stopped - in the batch, not when run alone - is answered
            // with a termination error; which limits that error names depends on the moment. Not compared.)
            // (matched float-blind: under the binding interface the explored responses went through a text round
            // trip in the harness, and serde_json's default parser may move a 17-digit float by one unit)
            let mut skip_requests: Vec<String> = vec![];
            if case.family == "clock" {
                for resp in run.iter() {
                    if resp.get("error").and_then(|e| e.as_str()).map_or(false, |e| e.contains("exceeded runtime limit")) {
                        if let Some(q) = resp.get("request") {
                            skip_requests.push(canon_blind(q));
                            bump("stopped_by_the_jumping_clock", 1);
                        }
                    }
                }
            }
            let keep = |r: &Value| !r.get("request").and_then(|q| q.get("_qid")).and_then(|x| x.as_u64()).map_or(false, |q| skip.contains(&q)) && !r.get("request").map_or(false, |q| skip_requests.contains(&canon_blind(q)));
            bump("isolation_skipped_degenerate_rates", skip.len() as u64);
            let expected: Vec<Value> = refs.iter().flat_map(|x| x.clone().unwrap()).filter(|r| keep(r)).collect();
            let run: Vec<Value> = run.iter().filter(|r| keep(r)).cloned().collect();
            for (c, d) in compare_by_request(&expected, &run, 1e-9) {
                v.push(Violation { class: format!("isolation-{}", c), detail: d });
            }
        } else {
            bump("reference_failed", 1);
        }
    }
    (v, reach, true)
}

impl Check for C12 {
    fn id(&self) -> &'static str {
        "C12"
    }
    fn families(&self, _tier: Tier) -> Vec<&'static str> {
        let mut f = vec![];
        for _ in 0..10 {
            f.extend(["malformed", "malformed", "malformed", "wellformed"]);
        }
        f[7] = "yens-known-panic";
        f[23] = "yens-known-loop";
        f[13] = "disk-full";
        f[31] = "disk-full";
        f[19] = "cli";
        f[37] = "cli";
        f[26] = "history";
        f[15] = "two-callers";
        f[39] = "two-callers";
        f[3] = "clock";
        f[11] = "clock";
        f[27] = "clock";
        f[35] = "clock";
        f.push("malformed"); // 41 entries: coprime with the worker count, so directed runs spread over all workers
        f
    }
    fn default_runs(&self, tier: Tier) -> u64 {
        match tier {
            Tier::Quick => 4100,
            Tier::Thorough => 40000,
        }
    }
    fn gen(&self, seed: u64, family: &str, tier: Tier) -> Case {
        if family == "cli" {
            // "the call returns so the remaining queries are served", through the command-line runner: rows that
            // are no query at all (not JSON, not UTF-8, empty, cut off) between the queries of a chunked file
            let mut c = super::c19::C19.gen(seed ^ 0xC12, "cli", tier);
            c.check = "C12".into();
            c.family = "cli".into();
            return c;
        }
        if family == "history" {
            // a history on one application (round 10): the malformed batch, then a batch of plain queries, each run()
            // call asking for a parallelism of its own (many workers first and few afterwards, or the other way
            // round). Whatever the first call leaves behind in the application, the second must return too; a panic in
            // any thread of any call is reported
            let mut c = gen(seed, "malformed", tier);
            c.family = family.to_string();
            let mut r = Rng::new(seed ^ fnv64("C12-history"));
            let plain: Vec<Value> = c.batches[0].iter().filter(|q| q.is_object() && q.get("_qid").map_or(false, |x| x.is_u64())).cloned().collect();
            let mut later: Vec<Value> = vec![];
            for k in 0..r.range(1, 7) as usize {
                if let Some(q) = plain.get(k % plain.len().max(1)) {
                    let mut q2 = q.clone();
                    q2["_qid"] = json!(6000 + k as u64);
                    later.push(q2);
                }
            }
            c.batches.push(later);
            if c.world.parallelism == 0 {
                c.world.parallelism = 2;
            }
            c.run_parallelism = None;
            let (a, b) = (r.range(1, 8), r.range(1, 8));
            c.params["run_parallelism_per_run"] = json!([a.max(b), a.min(b)]);
            if r.chance(0.3) {
                c.params["run_parallelism_per_run"] = json!([a.min(b), a.max(b)]);
            }
            return c;
        }
        if family == "two-callers" {
            // a second caller thread hands a batch of its own - empty half of the time - to run() on the same
            // application at the same time (round 7): whatever the two calls share, the first caller's malformed
            // batch is judged as ever (no panic in any thread, every query answered, isolation)
            let mut c = gen(seed, "malformed", tier);
            c.family = family.to_string();
            let mut r = Rng::new(seed ^ fnv64("C12-two-callers"));
            let mut other: Vec<Value> = vec![];
            if r.chance(0.5) {
                let plain: Vec<Value> = c.batches[0].iter().filter(|q| q.is_object() && q.get("_qid").map_or(false, |x| x.is_u64())).cloned().collect();
                for (k, q) in plain.iter().take(3).enumerate() {
                    let mut q2 = q.clone();
                    q2["_qid"] = json!(5000 + k as u64);
                    other.push(q2);
                }
            }
            c.batches.push(other);
            c.world.out = None;
            if c.world.parallelism == 0 {
                c.world.parallelism = 2;
            }
            if c.run_parallelism == Some(0) {
                c.run_parallelism = None;
            }
            c.params["two_callers"] = json!(true);
            return c;
        }
        gen(seed, family, tier)
    }
    fn run(&self, case: &Case, fatal_fd: i32) -> ChildResult {
        let probe = StageProbe { batches: case.batches.clone(), parallelism: case.run_parallelism.unwrap_or(case.world.parallelism), out: Value::Null };
        let obs = execute(case, ExecOpts { reference: true, trace: false, log_clock: false, explore_build: false }, Box::new(probe), fatal_fd);
        let (violations, mut reach, nontrivial) = if case.family == "cli" { super::c19::judge(case, &obs) } else { judge(case, &obs) };
        reach.insert("preemptions".into(), obs.stats.preemptions);
        world_reach(&case.world, &mut reach);
        let sig = fnv64(&format!("{}|{}", serde_json::to_string(&case.batches).unwrap(), obs.stats.sched_hash));
        ChildResult {
            violations,
            nontrivial,
            signature: sig,
            reach,
            sample: json!({"seed": case.seed, "family": case.family, "kinds": case.params["kinds"], "algorithm": case.world.algorithm, "plugins": case.world.input_plugins,
                "edge_oriented": case.world.edge_oriented, "workers": case.workers, "batch": case.batches[0].iter().take(3).collect::<Vec<_>>(), "steps": obs.stats.steps}),
            stats: Some(obs.stats.clone()),
            recorded: Some(obs.recorded.clone()),
            harness_error: None,
        }
    }
    fn rule(&self) -> String {
        "each evaluation = one generated world (as C06, plus both k-shortest-path algorithms, edge orientation, every input plugin in a generated order) + one batch of 0-12 values: valid queries and structure-aware mutations of them (non-object values, wrapped arrays, removed / ill-typed fields, six degenerate grid-search shapes, zero / ill-typed weights, ill-typed weight estimate, unknown vehicle, k and weight_factor overrides, out-of-range coordinates and ids, state-feature overrides, ill-typed vehicle rates), executed on a simulated pool under a seeded schedule with a budget of 1.5M scheduling points and 256 MiB allocated per thread. Violation = panic (reported with file + message), abort, deadlock, budget exceeded, run() failing as a whole, a query without an echoing response, or another query's response differing from its isolated run. The input breadth is input generation; the budget, the all-worker panic observation and the isolation comparison are what simulation adds. distinct = distinct (batch, schedule hash). Since round 2/3: energy worlds with unknown / ill-typed vehicle names and starting charges, values of 1-6 KiB (ASCII and two-byte characters, alone and in arrays), a response file in a quarter of the worlds, family disk-full = the response file meets a sticky ENOSPC / EIO (run() may fail, it must return; sleeping is simulated); family clock (round 6) = runtime limits of 1 s - 10 min with check frequency 1-50, alone or combined with iteration / size limits, under clock jumps of 1.5 s - 1 h: queries are stopped at arbitrary loop turns by arbitrary combinations of limits (a query stopped by the jumping clock is not compared with its isolated run) Round 7: family two-callers = a second caller thread hands a batch of its own (empty half of the time) to run() on the same application at the same time. Round 8: one case in seven goes through the language-binding interface (TOML configuration, JSON strings). Round 10: family history = two run() calls on one application (the malformed batch, then plain queries), each asking for a parallelism of its own; the second call must return too.".into()
    }
    fn assumptions(&self) -> Vec<String> {
        vec![
            "built with overflow-checks on (arithmetic underflow surfaces as a panic instead of wrapping) and debug assertions off, like the other checks".into(),
            "'without bound' = more than 1.5M scheduling points or 256 MiB of allocation by one thread for a batch of at most 12 queries on a network of at most 40 vertices; a loop with no allocation, lock or system call is caught only by the 60 s wall-clock backstop".into(),
        ]
    }
    fn judge_abnormal(&self, case: &Case, what: &str) -> Option<Violation> {
        // the configured algorithm is part of the class: it identifies the input family that fails
        let algo = case.world.algorithm["type"].as_str().unwrap_or("?");
        if what.contains("deadlock") {
            Some(Violation { class: "deadlock".into(), detail: what.into() })
        } else if what.contains("budget") || what.contains("timeout") {
            let site = what.split(" @").nth(1).unwrap_or("unknown");
            Some(Violation { class: format!("unbounded[{}]@{}", algo, site), detail: format!("the batch does not finish: {}", what) })
        } else {
            Some(Violation { class: format!("abort[{}]:{}", algo, what), detail: what.into() })
        }
    }
}
