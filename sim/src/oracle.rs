//! Small executable reference models and comparison helpers used by the checks.

use crate::world::OutFormat;
use serde_json::{json, Map, Value};
use std::collections::BTreeMap;

pub const VOLATILE_KEYS: [&str; 4] = ["search_executed_time", "search_runtime", "output_plugin_executed_time", "search_result_size_mib"];

/// canonical text of a JSON value: object keys sorted, so hash-order differences vanish
pub fn canon(v: &Value) -> String {
    fn go(v: &Value, out: &mut String) {
        match v {
            Value::Object(m) => {
                let mut keys: Vec<&String> = m.keys().collect();
                keys.sort();
                out.push('{');
                for (i, k) in keys.iter().enumerate() {
                    if i > 0 {
                        out.push(',');
                    }
                    out.push_str(&serde_json::to_string(k).unwrap());
                    out.push(':');
                    go(&m[*k], out);
                }
                out.push('}');
            }
            Value::Array(a) => {
                out.push('[');
                for (i, x) in a.iter().enumerate() {
                    if i > 0 {
                        out.push(',');
                    }
                    go(x, out);
                }
                out.push(']');
            }
            other => out.push_str(&other.to_string()),
        }
    }
    let mut s = String::new();
    go(v, &mut s);
    s
}

/// canonical text with every non-integer number replaced by '#': a grouping key that is blind to
/// the last-digit noise a JSON text round trip adds to floats
pub fn canon_blind(v: &Value) -> String {
    fn go(v: &Value) -> Value {
        match v {
            Value::Number(n) if !(n.is_i64() || n.is_u64()) => Value::String("#".into()),
            Value::Object(m) => Value::Object(m.iter().map(|(k, x)| (k.clone(), go(x))).collect()),
            Value::Array(a) => Value::Array(a.iter().map(go).collect()),
            other => other.clone(),
        }
    }
    canon(&go(v))
}

pub fn strip_volatile(v: &Value) -> Value {
    match v {
        Value::Object(m) => {
            let mut o = Map::new();
            for (k, x) in m {
                if !VOLATILE_KEYS.contains(&k.as_str()) {
                    o.insert(k.clone(), x.clone());
                }
            }
            Value::Object(o)
        }
        other => other.clone(),
    }
}

pub fn rel_close(a: f64, b: f64, tol: f64) -> bool {
    if a == b {
        return true;
    }
    if !a.is_finite() || !b.is_finite() {
        return false;
    }
    (a - b).abs() <= tol * a.abs().max(b.abs()).max(1e-300)
}

/// structural equality with relative tolerance on numbers
pub fn json_close(a: &Value, b: &Value, tol: f64) -> bool {
    match (a, b) {
        (Value::Number(x), Value::Number(y)) => match (x.as_f64(), y.as_f64()) {
            (Some(x), Some(y)) => rel_close(x, y, tol),
            _ => x == y,
        },
        (Value::Object(x), Value::Object(y)) => x.len() == y.len() && x.iter().all(|(k, v)| y.get(k).map_or(false, |w| json_close(v, w, tol))),
        (Value::Array(x), Value::Array(y)) => x.len() == y.len() && x.iter().zip(y.iter()).all(|(v, w)| json_close(v, w, tol)),
        _ => a == b,
    }
}

/// what C06 compares: request, success/error, route cost, final state
#[derive(Debug, Clone)]
pub struct Essence {
    pub request: String,
    pub request_value: Value,
    pub error: Option<String>,
    pub cost: Value,
    pub state: Value,
    /// the cost parameters the response says were in force (weights, rates, aggregation)
    pub cost_model: Value,
    pub has_route: bool,
}

pub fn essence(resp: &Value) -> Essence {
    let request_value = resp.get("request").cloned().unwrap_or(Value::Null);
    let request = canon_blind(&request_value);
    let error = resp.get("error").map(|e| match e {
        Value::String(s) => s.clone(),
        other => canon(other),
    });
    let route = resp.get("route").cloned().unwrap_or(Value::Null);
    let (cost, state) = match &route {
        // k-shortest-path responses: which alternatives follow the best route depends on the iteration
        // order of hash maps inside the algorithm (also for a query run alone), so only the first,
        // best route is comparable
        Value::Array(rs) => (rs.first().and_then(|r| r.get("cost")).cloned().unwrap_or(Value::Null), rs.first().and_then(|r| r.get("traversal_summary")).cloned().unwrap_or(Value::Null)),
        Value::Object(_) => (route.get("cost").cloned().unwrap_or(Value::Null), route.get("traversal_summary").cloned().unwrap_or(Value::Null)),
        _ => (Value::Null, Value::Null),
    };
    let cost_model = match &route {
        Value::Array(rs) => rs.first().and_then(|r| r.get("cost_model")).cloned().unwrap_or(Value::Null),
        Value::Object(_) => route.get("cost_model").cloned().unwrap_or(Value::Null),
        _ => Value::Null,
    };
    Essence { request, request_value, error, cost, state, cost_model, has_route: !route.is_null() }
}

/// the kind of an error: its first words. The full text may name whichever offending item a
/// hash-ordered map yielded first, so it is not comparable across executions.
pub fn norm_err(s: &str) -> String {
    let words: Vec<&str> = s.split(|c: char| !c.is_alphanumeric() && c != '_').filter(|w| !w.is_empty()).take(6).collect();
    words.join(" ")
}

pub fn essence_equal(a: &Essence, b: &Essence, tol: f64) -> Result<(), String> {
    if !json_close(&a.request_value, &b.request_value, 1e-12) {
        return Err(format!("request differs: {} vs {}", a.request_value, b.request_value));
    }
    match (&a.error, &b.error) {
        (None, None) => {}
        (Some(x), Some(y)) => {
            // the property compares "success or error"; we also compare the kind of error
            if norm_err(x) != norm_err(y) {
                return Err(format!("error text differs: {:?} vs {:?}", x, y));
            }
        }
        (x, y) => return Err(format!("success/error differs: {:?} vs {:?}", x, y)),
    }
    if a.has_route != b.has_route {
        return Err(format!("route presence differs: {} vs {}", a.has_route, b.has_route));
    }
    if !json_close(&a.cost, &b.cost, tol) {
        return Err(format!("route cost differs: {} vs {}", a.cost, b.cost));
    }
    if !json_close(&a.state, &b.state, tol) {
        return Err(format!("final state differs: {} vs {}", a.state, b.state));
    }
    // the objective the response reports (weights and rates in force) is part of "route cost": a
    // query answered under another query's weights is a changed response even when the small
    // network leaves only one sensible route
    if !json_close(&a.cost_model, &b.cost_model, tol) {
        return Err(format!("cost parameters in force differ: {} vs {}", a.cost_model, b.cost_model));
    }
    Ok(())
}

/// reference model of grid-search expansion: the Cartesian product of the array-valued fields
/// of the grid section; scalars go under the field's name, objects are merged into the top level.
pub fn expand_grid(q: &Value) -> Vec<Value> {
    let obj = match q.as_object() {
        Some(o) => o,
        None => return vec![q.clone()],
    };
    let grid = match obj.get("grid_search").and_then(|g| g.as_object()) {
        Some(g) => g,
        None => return vec![q.clone()],
    };
    let mut base = obj.clone();
    base.remove("grid_search");
    let axes: Vec<(&String, &Vec<Value>)> = grid.iter().filter_map(|(k, v)| v.as_array().map(|a| (k, a))).collect();
    let mut out = vec![Value::Object(base)];
    for (k, opts) in axes {
        let mut next = vec![];
        for o in opts {
            for b in &out {
                let mut inst = b.clone();
                match o {
                    Value::Object(m) => {
                        for (kk, vv) in m {
                            inst[kk] = vv.clone();
                        }
                    }
                    other => inst[k] = other.clone(),
                }
                next.push(inst);
            }
        }
        out = next;
    }
    out
}

/// multiset of canonical strings
pub fn multiset(xs: impl Iterator<Item = String>) -> BTreeMap<String, usize> {
    let mut m = BTreeMap::new();
    for x in xs {
        *m.entry(x).or_insert(0) += 1;
    }
    m
}

// ---------------------------------------------------------------------------
// CSV reference evaluator
// ---------------------------------------------------------------------------

/// Column order is whatever the header in the file says, provided the header is a permutation of the
/// configured mapping keys (and sorted when `sorted` is set). Rows must then follow that order.
/// `case_blind`: the policy went through the application configuration, whose loader (the config crate)
/// may lower-case keys - column names included - before the application sees them (observed: sometimes it
/// does, sometimes not); a policy given per run keeps its case. The header must name every mapping key
/// once (ignoring case when `case_blind`), and be in byte-wise ascending order when `sorted` is set.
pub fn csv_columns_from_header(format: &OutFormat, header: &str, case_blind: bool) -> Result<Vec<(String, Value)>, String> {
    match format {
        OutFormat::Json | OutFormat::JsonArray => Ok(vec![]),
        OutFormat::Csv { mapping, sorted } => {
            let norm = |s: &str| if case_blind { s.to_lowercase() } else { s.to_string() };
            let names: Vec<&str> = header.split(',').collect();
            let mut want: Vec<String> = mapping.iter().map(|m| norm(&m.0)).collect();
            let mut got: Vec<String> = names.iter().map(|n| norm(n)).collect();
            want.sort();
            got.sort();
            if want != got {
                return Err(format!("header {:?} is not a permutation of the mapping keys {:?}", header, mapping.iter().map(|m| &m.0).collect::<Vec<_>>()));
            }
            let mut in_order = names.clone();
            in_order.sort();
            if *sorted && names != in_order {
                return Err(format!("header {:?} is not sorted although sorted=true", header));
            }
            Ok(names.iter().map(|n| (n.to_string(), mapping.iter().find(|m| norm(&m.0) == norm(n)).unwrap().1.clone())).collect())
        }
    }
}

fn traverse<'a>(v: &'a Value, path: &str) -> Option<&'a Value> {
    let mut cur = v;
    for part in path.split('.') {
        cur = cur.get(part)?;
    }
    Some(cur)
}

/// Ok(cell value) / Err(()) when the mapping cannot be applied
pub fn apply_mapping(m: &Value, resp: &Value) -> Result<Value, ()> {
    match m {
        Value::String(p) => traverse(resp, p).cloned().ok_or(()),
        Value::Object(o) => {
            if let Some(Value::Array(terms)) = o.get("sum") {
                let mut total = 0.0;
                for t in terms {
                    match apply_mapping(t, resp)? {
                        Value::Null => {}
                        Value::Number(n) => total += n.as_f64().ok_or(())?,
                        _ => return Err(()),
                    }
                }
                Ok(json!(total))
            } else if let Some(inner) = o.get("optional") {
                Ok(apply_mapping(inner, resp).unwrap_or(Value::Null))
            } else {
                Err(())
            }
        }
        _ => Err(()),
    }
}

/// the row a response must produce, given the header order; cells that cannot be mapped are empty
pub fn expected_row(cols: &[(String, Value)], resp: &Value) -> (String, bool) {
    let mut any_err = false;
    let cells: Vec<String> = cols
        .iter()
        .map(|(_, m)| match apply_mapping(m, resp) {
            Ok(v) => v.to_string(),
            Err(()) => {
                any_err = true;
                String::new()
            }
        })
        .collect();
    (cells.join(","), any_err)
}

/// match responses by request and compare their essence; returns (class, detail) pairs
pub fn compare_by_request(expected: &[Value], actual: &[Value], tol: f64) -> Vec<(String, String)> {
    let mut v = vec![];
    let mut eg: BTreeMap<String, Vec<Essence>> = BTreeMap::new();
    for r in expected {
        let e = essence(r);
        eg.entry(e.request.clone()).or_default().push(e);
    }
    // a value that is not a JSON object cannot be carried in "request" by the invariant-error path (it is
    // displayed inside the error text instead): such responses are matched by their error text, and a
    // missing request is only a violation when the same query run alone does carry it
    let no_request_key = |r: &Value| format!("<no request> {}", r.get("error").map(|e| e.to_string()).unwrap_or_default());
    let mut eg: BTreeMap<String, Vec<Essence>> = eg;
    let mut expected_without_request: BTreeMap<String, usize> = BTreeMap::new();
    for r in expected {
        if r.get("request").is_none() {
            *expected_without_request.entry(no_request_key(r)).or_insert(0) += 1;
        }
    }
    if !expected_without_request.is_empty() {
        eg.remove(&canon_blind(&Value::Null));
    }
    let mut ag: BTreeMap<String, Vec<Essence>> = BTreeMap::new();
    for r in actual {
        if r.get("request").is_none() {
            let k = no_request_key(r);
            match expected_without_request.get_mut(&k) {
                Some(n) if *n > 0 => *n -= 1,
                _ => v.push(("no-request".to_string(), format!("response does not carry its request: {}", r))),
            }
            continue;
        }
        let e = essence(r);
        ag.entry(e.request.clone()).or_default().push(e);
    }
    for (k, n) in &expected_without_request {
        if *n > 0 {
            v.push(("lost".into(), format!("{} response(s) missing: {}", n, k.chars().take(200).collect::<String>())));
        }
    }
    for (k, es) in &eg {
        match ag.get(k) {
            None => v.push(("lost".into(), format!("no response for request {} (expected {})", k, es.len()))),
            Some(as_) => {
                if as_.len() < es.len() {
                    v.push(("lost".into(), format!("{} responses for request {}, expected {}", as_.len(), k, es.len())));
                } else if as_.len() > es.len() {
                    v.push(("duplicated".into(), format!("{} responses for request {}, expected {}", as_.len(), k, es.len())));
                } else {
                    // tolerant bipartite matching inside the group (groups are tiny)
                    let mut used = vec![false; as_.len()];
                    let mut first_err: Option<String> = None;
                    for e in es {
                        let mut hit = None;
                        for (i, a) in as_.iter().enumerate() {
                            if used[i] {
                                continue;
                            }
                            match essence_equal(a, e, tol) {
                                Ok(()) => {
                                    hit = Some(i);
                                    break;
                                }
                                Err(d) => {
                                    if first_err.is_none() {
                                        first_err = Some(d);
                                    }
                                }
                            }
                        }
                        match hit {
                            Some(i) => used[i] = true,
                            None => v.push(("differs-from-isolated".into(), format!("response for {} differs from the query run alone: {}", k, first_err.clone().unwrap_or_default()))),
                        }
                    }
                }
            }
        }
    }
    for (k, as_) in &ag {
        if !eg.contains_key(k) {
            v.push(("extra".into(), format!("{} unexpected responses with request {}", as_.len(), k)));
        }
    }
    v
}

// ---------------------------------------------------------------------------
// CSV reading that does not prescribe how a cell is escaped
// ---------------------------------------------------------------------------

/// one cell as found in the file: a JSON rendering (what the application writes today: strings in
/// double quotes with backslash escapes, objects and arrays inline), an RFC 4180 quoted cell, or bare text
#[derive(Debug, Clone, PartialEq)]
pub enum Cell {
    Json(Value),
    Text(String),
}

/// split a CSV text into records of cells. A record ends at a line break outside quotes / JSON
/// values. Returns the records and whether the text ended inside an unfinished record.
pub fn parse_csv_records(text: &str) -> (Vec<Vec<Cell>>, bool) {
    let b = text.as_bytes();
    let mut recs: Vec<Vec<Cell>> = vec![];
    let mut cur: Vec<Cell> = vec![];
    let mut i = 0;
    let at_delim = |j: usize| j >= b.len() || b[j] == b',' || b[j] == b'\n' || b[j] == b'\r';
    let mut unfinished = false;
    while i <= b.len() {
        if i == b.len() {
            if !cur.is_empty() {
                unfinished = true;
                recs.push(std::mem::take(&mut cur));
            }
            break;
        }
        // ---- one cell ----
        let mut cell: Option<(Cell, usize)> = None;
        if b[i] == b'"' || b[i] == b'{' || b[i] == b'[' {
            let mut it = serde_json::Deserializer::from_str(&text[i..]).into_iter::<Value>();
            if let Some(Ok(v)) = it.next() {
                let end = i + it.byte_offset();
                if at_delim(end) {
                    cell = Some((Cell::Json(v), end));
                }
            }
            if cell.is_none() && b[i] == b'"' {
                // RFC 4180: quotes doubled inside, may contain commas and line breaks
                let mut j = i + 1;
                let mut out = String::new();
                let mut closed = false;
                while j < b.len() {
                    if b[j] == b'"' {
                        if j + 1 < b.len() && b[j + 1] == b'"' {
                            out.push('"');
                            j += 2;
                            continue;
                        }
                        closed = true;
                        j += 1;
                        break;
                    }
                    let ch = text[j..].chars().next().unwrap();
                    out.push(ch);
                    j += ch.len_utf8();
                }
                if closed && at_delim(j) {
                    cell = Some((Cell::Text(out), j));
                }
            }
        }
        let (c, end) = match cell {
            Some(x) => x,
            None => {
                let mut j = i;
                while j < b.len() && b[j] != b',' && b[j] != b'\n' && b[j] != b'\r' {
                    j += 1;
                }
                (Cell::Text(text[i..j].to_string()), j)
            }
        };
        cur.push(c);
        i = end;
        if i >= b.len() {
            continue;
        }
        match b[i] {
            b',' => {
                i += 1;
                if i == b.len() {
                    cur.push(Cell::Text(String::new()));
                }
            }
            b'\r' | b'\n' => {
                if b[i] == b'\r' && i + 1 < b.len() && b[i + 1] == b'\n' {
                    i += 1;
                }
                i += 1;
                recs.push(std::mem::take(&mut cur));
            }
            _ => {}
        }
    }
    (recs, unfinished)
}

/// does the cell hold this value? (any escaping of strings; empty or `null` for null; numbers within tolerance)
pub fn cell_matches(expected: &Value, cell: &Cell, tol: f64) -> bool {
    match (expected, cell) {
        (e, Cell::Json(v)) => json_close(e, v, tol),
        (Value::Null, Cell::Text(t)) => t.is_empty() || t == "null",
        (Value::String(s), Cell::Text(t)) => s == t,
        (e, Cell::Text(t)) => serde_json::from_str::<Value>(t).map_or(false, |v| json_close(e, &v, tol)),
    }
}

/// the values a response must produce, in header order (None = the mapping cannot be applied: empty cell)
pub fn expected_cells(cols: &[(String, Value)], resp: &Value) -> (Vec<Value>, bool) {
    let mut any_err = false;
    let cells = cols
        .iter()
        .map(|(_, m)| match apply_mapping(m, resp) {
            Ok(v) => v,
            Err(()) => {
                any_err = true;
                Value::Null
            }
        })
        .collect();
    (cells, any_err)
}
