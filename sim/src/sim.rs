//! Deterministic simulator core.
//!
//! The system under test runs on real OS threads, but only the holder of a single
//! token executes; every other registered thread is parked on a private raw futex.
//! The simulator owns: who runs next (at every scheduling point), what every clock
//! read returns, the contents and behaviour of files under `/sim/`, and the bytes
//! returned by `getrandom`. All decisions come from one `Decider` (PRNG from the
//! seed, or a recorded list on replay).
//!
//! Nothing here provides mutual exclusion for the code under test: blocking is
//! *observed* at the futex syscall, not modelled.

use std::cell::Cell;
use std::collections::BTreeMap;
use std::sync::atomic::{AtomicPtr, AtomicU32, Ordering};

pub const MAX_THREADS: usize = 64;
pub const VROOT: &str = "/sim/";

// ---------------------------------------------------------------------------
// raw syscalls (never routed through the interposed symbols)
// ---------------------------------------------------------------------------

#[inline(always)]
pub unsafe fn raw_syscall6(n: i64, a1: i64, a2: i64, a3: i64, a4: i64, a5: i64, a6: i64) -> i64 {
    let ret: i64;
    core::arch::asm!(
        "syscall",
        inlateout("rax") n => ret,
        in("rdi") a1, in("rsi") a2, in("rdx") a3, in("r10") a4, in("r8") a5, in("r9") a6,
        lateout("rcx") _, lateout("r11") _,
        options(nostack)
    );
    ret
}

unsafe fn raw_futex_wait(addr: *const AtomicU32, val: u32) {
    raw_syscall6(libc::SYS_futex, addr as i64, (libc::FUTEX_WAIT | libc::FUTEX_PRIVATE_FLAG) as i64, val as i64, 0, 0, 0);
}
unsafe fn raw_futex_wake(addr: *const AtomicU32, n: i32) {
    raw_syscall6(libc::SYS_futex, addr as i64, (libc::FUTEX_WAKE | libc::FUTEX_PRIVATE_FLAG) as i64, n as i64, 0, 0, 0);
}
pub fn raw_write_fd(fd: i32, mut buf: &[u8]) {
    unsafe {
        while !buf.is_empty() {
            let r = raw_syscall6(libc::SYS_write, fd as i64, buf.as_ptr() as i64, buf.len() as i64, 0, 0, 0);
            if r == -(libc::EINTR as i64) {
                continue;
            }
            if r <= 0 {
                break;
            }
            buf = &buf[r as usize..];
        }
    }
}
pub fn raw_exit(code: i32) -> ! {
    unsafe {
        raw_syscall6(libc::SYS_exit_group, code as i64, 0, 0, 0, 0, 0);
    }
    loop {}
}

// ---------------------------------------------------------------------------
// PRNG (splitmix64 / xoshiro256**), no external crates
// ---------------------------------------------------------------------------

#[derive(Clone, Debug)]
pub struct Rng {
    s: [u64; 4],
}
impl Rng {
    pub fn new(seed: u64) -> Rng {
        let mut z = seed.wrapping_add(0x9E3779B97F4A7C15);
        let mut s = [0u64; 4];
        for x in s.iter_mut() {
            z = z.wrapping_add(0x9E3779B97F4A7C15);
            let mut y = z;
            y = (y ^ (y >> 30)).wrapping_mul(0xBF58476D1CE4E5B9);
            y = (y ^ (y >> 27)).wrapping_mul(0x94D049BB133111EB);
            *x = y ^ (y >> 31);
        }
        Rng { s }
    }
    pub fn fork(&mut self, tag: u64) -> Rng {
        Rng::new(self.next_u64() ^ tag.wrapping_mul(0xD6E8FEB86659FD93))
    }
    pub fn next_u64(&mut self) -> u64 {
        let r = self.s[1].wrapping_mul(5).rotate_left(7).wrapping_mul(9);
        let t = self.s[1] << 17;
        self.s[2] ^= self.s[0];
        self.s[3] ^= self.s[1];
        self.s[1] ^= self.s[2];
        self.s[0] ^= self.s[3];
        self.s[2] ^= t;
        self.s[3] = self.s[3].rotate_left(45);
        r
    }
    /// uniform in 0..n (n>0)
    pub fn below(&mut self, n: u64) -> u64 {
        if n <= 1 {
            return 0;
        }
        self.next_u64() % n
    }
    pub fn range(&mut self, lo: u64, hi_incl: u64) -> u64 {
        lo + self.below(hi_incl - lo + 1)
    }
    pub fn f64(&mut self) -> f64 {
        (self.next_u64() >> 11) as f64 / (1u64 << 53) as f64
    }
    pub fn chance(&mut self, p: f64) -> bool {
        self.f64() < p
    }
    pub fn pick<'a, T>(&mut self, xs: &'a [T]) -> &'a T {
        &xs[self.below(xs.len() as u64) as usize]
    }
    pub fn shuffle<T>(&mut self, xs: &mut [T]) {
        for i in (1..xs.len()).rev() {
            let j = self.below(i as u64 + 1) as usize;
            xs.swap(i, j);
        }
    }
}

// ---------------------------------------------------------------------------
// configuration, recorded decisions
// ---------------------------------------------------------------------------

pub const F_SHORT_WRITE: u32 = 1 << 0;
pub const F_EINTR_WRITE: u32 = 1 << 1;
pub const F_SHORT_READ: u32 = 1 << 2;
pub const F_EINTR_READ: u32 = 1 << 3;
pub const F_EIO_WRITE: u32 = 1 << 4; // hard
pub const F_ENOSPC_WRITE: u32 = 1 << 5; // hard
pub const F_EIO_READ: u32 = 1 << 6; // hard
pub const F_TRUNC_READ: u32 = 1 << 7; // hard: early EOF
pub const F_CLOCK_JUMP: u32 = 1 << 8;
pub const F_THREAD_STALL: u32 = 1 << 9;
pub const F_BITFLIP_READ: u32 = 1 << 10; // hard: one stored bit reads back flipped (only on `trunc_paths`: checksummed streams)
pub const F_EOPEN: u32 = 1 << 11; // hard: open() fails (EMFILE / EACCES / EIO / ENOMEM)
pub const F_ZERO_WRITE: u32 = 1 << 12; // hard: write() accepts nothing (returns 0), once or from then on
pub const F_HARD: u32 = F_EIO_WRITE | F_ENOSPC_WRITE | F_EIO_READ | F_TRUNC_READ | F_BITFLIP_READ | F_EOPEN | F_ZERO_WRITE;

pub const FAULT_NAMES: [(&str, u32); 15] = [
    ("short_write", F_SHORT_WRITE),
    ("eintr_write", F_EINTR_WRITE),
    ("short_read", F_SHORT_READ),
    ("eintr_read", F_EINTR_READ),
    ("eio_write", F_EIO_WRITE),
    ("enospc_write", F_ENOSPC_WRITE),
    ("eio_read", F_EIO_READ),
    ("trunc_read", F_TRUNC_READ),
    ("clock_jump", F_CLOCK_JUMP),
    ("thread_stall", F_THREAD_STALL),
    ("bitflip_read", F_BITFLIP_READ),
    ("eopen", F_EOPEN),
    ("zero_write", F_ZERO_WRITE),
    ("spurious_wake", 0),
    ("wall_clock_step_back", 0),
];

#[derive(Clone, Debug, serde::Serialize, serde::Deserialize, PartialEq)]
pub enum SchedMode {
    /// at every point: stay with probability p_stay, otherwise uniform among the others
    Random,
    /// PCT-style: random priorities, `depth` priority change points
    Pct,
    /// never preempt voluntarily (switch only when the running thread blocks or yields)
    Cooperative,
    /// PCT over synchronisation events only: random priorities; at each synchronisation event (lock /
    /// unlock fast path, wake, file I/O, clock read, probe — not allocations) the running thread is
    /// demoted with probability 1/pct_horizon, at most pct_depth times. Places the few priority
    /// changes exactly where lock-granularity and ordering bugs need them.
    PctSync,
}

#[derive(Clone, Debug, serde::Serialize, serde::Deserialize)]
pub struct SimCfg {
    pub sched: SchedMode,
    pub p_stay: f64,
    pub pct_depth: u32,
    pub pct_horizon: u64,
    /// every n-th allocation of a simulated thread is a scheduling point (0 = never)
    pub alloc_every: u64,
    /// every n-th acquire/release atomic write of a simulated thread inside the (instrumented) code
    /// under test is a scheduling point (0 = never): lock and unlock fast paths
    #[serde(default)]
    pub atomic_every: u64,
    /// every n-th atomic load or relaxed store of a simulated thread inside the instrumented code is a
    /// scheduling point (0 = never): the reader side of lock-free protocols
    #[serde(default)]
    pub atomic_load_every: u64,
    /// enabled fault kinds (bit mask)
    pub faults: u32,
    /// probability that an eligible I/O op gets a fault
    pub io_fault_rate: f64,
    /// probability that a clock read gets a jump/stall
    pub clock_fault_rate: f64,
    /// size of a clock jump / stall in ns
    pub clock_jump_ns: u64,
    /// normal advance per clock read
    pub clock_tick_ns: u64,
    /// at most this many hard faults per run
    pub max_hard_faults: u32,
    /// only files whose path contains one of these substrings receive I/O faults (empty = all sim files)
    pub fault_paths: Vec<String>,
    /// truncation faults only on paths containing one of these substrings (empty = all)
    #[serde(default)]
    pub trunc_paths: Vec<String>,
    pub max_steps: u64,
    pub max_alloc_bytes: u64,
    /// hard I/O faults are one-shot only (no "the medium stays broken" variants)
    #[serde(default)]
    pub no_sticky_faults: bool,
    /// files whose path contains one of these behave like a pipe towards stat and seek: the reported size is 0
    /// and seeking fails with ESPIPE (reading works as usual) - what a FIFO or /dev/stdin gives a program
    #[serde(default)]
    pub pipe_like_paths: Vec<String>,
    /// probability that a futex wait returns at once without having been woken (a spurious wake-up: legal,
    /// every correct waiter re-checks its predicate)
    #[serde(default)]
    pub spurious_wake_rate: f64,
    /// probability that a read of the wall clock (CLOCK_REALTIME) finds it stepped backwards by `wall_step_ns`
    /// (an operator or a time daemon setting the clock: legal; the monotonic clock is never stepped)
    #[serde(default)]
    pub wall_step_rate: f64,
    #[serde(default)]
    pub wall_step_ns: u64,
    /// level of the logger installed in the process for this run (0 = none, 1 error .. 5 trace): the `log`
    /// facade's global logger, as RUST_LOG=debug or an embedding application would set it
    #[serde(default)]
    pub log_level: u8,
    /// simulated time that passes between two run() calls on the same application (the application sits idle)
    #[serde(default)]
    pub idle_between_runs_ns: u64,
}

impl Default for SimCfg {
    fn default() -> Self {
        SimCfg {
            sched: SchedMode::Random,
            p_stay: 0.8,
            pct_depth: 3,
            pct_horizon: 2000,
            alloc_every: 0,
            atomic_every: 0,
            atomic_load_every: 0,
            faults: 0,
            io_fault_rate: 0.0,
            clock_fault_rate: 0.0,
            clock_jump_ns: 0,
            clock_tick_ns: 1_000,
            max_hard_faults: 1,
            fault_paths: vec![],
            trunc_paths: vec![],
            max_steps: 3_000_000,
            max_alloc_bytes: 2 << 30,
            no_sticky_faults: false,
            pipe_like_paths: vec![],
            spurious_wake_rate: 0.0,
            wall_step_rate: 0.0,
            wall_step_ns: 0,
            log_level: 0,
            idle_between_runs_ns: 0,
        }
    }
}

/// one injected fault, recorded explicitly so a replay does not depend on PRNG position
#[derive(Clone, Debug, serde::Serialize, serde::Deserialize, PartialEq)]
pub struct FaultEv {
    /// "io" faults are keyed by the index of the simulated read/write op, "open" by the open index,
    /// "clock" by the clock-read index, "probe" by the probe index.
    pub at: String,
    pub idx: u64,
    pub kind: String,
    pub arg: u64,
}

#[derive(Clone, Debug, Default, serde::Serialize, serde::Deserialize)]
pub struct Recorded {
    /// scheduling decisions, sparse: (decision index, choice) for non-zero choices
    pub sched: Vec<(u64, u32)>,
    pub faults: Vec<FaultEv>,
}

pub struct Decider {
    pub replay: bool,
    pub sched_rng: Rng,
    pub fault_rng: Rng,
    pub rand_rng: Rng,
    pub sched_idx: u64,
    pub rec: Recorded,
    // replay state
    sched_map: BTreeMap<u64, u32>,
    fault_map: BTreeMap<(String, u64), (String, u64)>,
}

impl Decider {
    pub fn from_seed(seed: u64) -> Decider {
        let mut root = Rng::new(seed ^ 0x51D_5EED);
        Decider {
            replay: false,
            sched_rng: root.fork(1),
            fault_rng: root.fork(2),
            rand_rng: root.fork(3),
            sched_idx: 0,
            rec: Recorded::default(),
            sched_map: BTreeMap::new(),
            fault_map: BTreeMap::new(),
        }
    }
    pub fn from_recorded(seed: u64, rec: &Recorded) -> Decider {
        let mut d = Decider::from_seed(seed);
        d.replay = true;
        for (i, c) in &rec.sched {
            d.sched_map.insert(*i, *c);
        }
        for f in &rec.faults {
            d.fault_map.insert((f.at.clone(), f.idx), (f.kind.clone(), f.arg));
        }
        d
    }
    /// choose among n options; 0 is always "the default" (stay / lowest id / FIFO)
    fn sched_choice(&mut self, n: usize, gen: impl FnOnce(&mut Rng) -> usize) -> usize {
        let i = self.sched_idx;
        self.sched_idx += 1;
        let c = if self.replay {
            let c = self.sched_map.get(&i).copied().unwrap_or(0) as usize;
            if c < n {
                c
            } else {
                0
            }
        } else {
            gen(&mut self.sched_rng)
        };
        if c != 0 {
            self.rec.sched.push((i, c as u32));
        }
        c
    }
    fn fault_at(&mut self, at: &str, idx: u64, gen: impl FnOnce(&mut Rng) -> Option<(&'static str, u64)>) -> Option<(String, u64)> {
        let r = if self.replay {
            self.fault_map.get(&(at.to_string(), idx)).cloned()
        } else {
            gen(&mut self.fault_rng).map(|(k, a)| (k.to_string(), a))
        };
        if let Some((k, a)) = &r {
            self.rec.faults.push(FaultEv { at: at.to_string(), idx, kind: k.clone(), arg: *a });
        }
        r
    }
}

// ---------------------------------------------------------------------------
// state
// ---------------------------------------------------------------------------

#[derive(Clone, Copy, PartialEq, Debug)]
enum TState {
    Unused,
    Starting,
    Runnable,
    Blocked { addr: usize, deadline: Option<u64>, seq: u64 },
    Finished,
}

struct Slot {
    pthread: libc::pthread_t,
    park: AtomicU32,
    state: TState,
    timed_out: bool,
    alloc_count: u64,
    alloc_bytes: u64,
    atomic_count: u64,
    atomic_load_count: u64,
    clock_off: u64,
    prio: i64,
    yields_in_row: u32,
    /// the handle this (finished) thread had now names another thread
    handle_recycled: bool,
}

#[derive(Clone, Debug, Default, serde::Serialize, serde::Deserialize)]
pub struct Stats {
    pub steps: u64,
    pub switches: u64,
    pub preemptions: u64,
    pub futex_waits: u64,
    pub futex_wakes: u64,
    pub yields: u64,
    pub alloc_points: u64,
    #[serde(default)]
    pub atomic_points: u64,
    pub clock_reads: u64,
    pub sim_reads: u64,
    pub sim_writes: u64,
    pub sim_opens: u64,
    pub probes: u64,
    pub getrandom_calls: u64,
    pub threads: u64,
    pub sim_time_ns: u64,
    #[serde(default)]
    pub idle_ns: u64,
    pub faults: BTreeMap<String, u64>,
    pub trace_hash: u64,
    pub sched_hash: u64,
}

#[derive(Clone, Debug, serde::Serialize, serde::Deserialize)]
pub struct ProbeEv {
    pub step: u64,
    pub tid: usize,
    pub kind: u32,
    pub a: u64,
    pub b: u64,
    pub clock: u64,
}

pub struct VFile {
    pub data: Vec<u8>,
    /// modification time (wall clock, ns since the epoch): when the bytes were last written
    pub mtime_ns: u64,
}
struct OpenFd {
    path: String,
    pos: usize,
    append: bool,
    limit: Option<usize>, // truncation fault: file appears to end here
    broken: bool,         // sticky EIO: every further read fails
}

pub struct Sim {
    slots: Vec<Slot>,
    nthreads: usize,
    live: usize,
    cur: usize,
    block_seq: u64,
    pub cfg: SimCfg,
    pub dec: Decider,
    pub stats: Stats,
    pub files: BTreeMap<String, VFile>,
    fds: BTreeMap<i32, OpenFd>,
    clock_ns: u64,
    io_idx: u64,
    open_idx: u64,
    clock_idx: u64,
    /// names removed so far (unlink / rename over an existing file)
    unlinked: u64,
    /// how far the wall clock has been stepped back so far (fault wall_clock_step_back)
    wall_back_ns: u64,
    probe_idx: u64,
    hard_faults: u32,
    /// paths on which a sticky write fault fired: every further write fails with the same errno (the disk stays full / broken)
    broken_write_paths: BTreeMap<String, i32>,
    /// how often each pipe-like path has been opened for reading
    pipe_opens: BTreeMap<String, u32>,
    addr_ids: BTreeMap<usize, u32>,
    pct_points: Vec<u64>,
    sync_demotions: u32,
    just_woken: bool,
    pub quiet: bool,
    pub probes: Vec<ProbeEv>,
    pub trace: Option<Vec<String>>,
    pub clock_log: Vec<(usize, i32, u64)>,
    pub log_clock: bool,
    fatal_fd: i32,
}

static SIM: AtomicPtr<Sim> = AtomicPtr::new(std::ptr::null_mut());

thread_local! {
    static TID: Cell<usize> = const { Cell::new(usize::MAX) };
    static IN_SIM: Cell<bool> = const { Cell::new(false) };
    /// set while the harness itself creates a thread (pool workers it registers by hand, the watchdog)
    static RAW_SPAWN: Cell<bool> = const { Cell::new(false) };
}

/// run `f` with thread creation passed straight through to the system
pub fn with_raw_spawn<R>(f: impl FnOnce() -> R) -> R {
    let old = RAW_SPAWN.with(|c| c.replace(true));
    let r = f();
    RAW_SPAWN.with(|c| c.set(old));
    r
}

/// is a thread created right now, by this thread, a thread of the simulated system?
pub fn spawns_are_simulated() -> bool {
    current_tid().is_some() && !IN_SIM.with(|c| c.get()) && !RAW_SPAWN.with(|c| c.get()) && !SIM.load(Ordering::Acquire).is_null()
}

/// the creation of a registered thread failed: it will never run
pub fn thread_never_started(id: usize) {
    with(|s| {
        s.slots[id].state = TState::Finished;
        s.live -= 1;
    })
}

/// called by a joiner: yield until the simulated thread with this pthread handle has finished
/// (a handle the simulator does not know is not waited for here)
pub fn wait_finished(th: libc::pthread_t) {
    if current_tid().is_none() || IN_SIM.with(|c| c.get()) {
        return;
    }
    loop {
        let state = with(|s| {
            // a thread that has not begun yet has no handle recorded: look among the starting ones too
            let mut found = None;
            for t in 0..s.nthreads {
                if s.slots[t].pthread == th && t != 0 {
                    found = Some(s.slots[t].state == TState::Finished);
                }
            }
            let any_starting = (0..s.nthreads).any(|t| s.slots[t].state == TState::Starting || (s.slots[t].pthread == 0 && s.slots[t].state == TState::Runnable));
            match found {
                Some(done) => Some(done),
                None if any_starting => Some(false),
                None => None,
            }
        });
        match state {
            Some(false) => yield_now(),
            _ => return,
        }
    }
}

pub const REALTIME_EPOCH_NS: u64 = 1_700_000_000_000_000_000;
pub const MONO_BASE_NS: u64 = 1_000_000_000_000;

/// RAII guard: marks "inside simulator code" so hooks fired by our own allocations / syscalls pass through.
pub struct Guard {
    pub tid: usize,
}
impl Drop for Guard {
    fn drop(&mut self) {
        IN_SIM.with(|c| c.set(false));
    }
}
#[inline]
pub fn enter() -> Option<Guard> {
    let tid = TID.try_with(|c| c.get()).unwrap_or(usize::MAX);
    if tid == usize::MAX {
        return None;
    }
    let already = IN_SIM.with(|c| c.replace(true));
    if already {
        return None;
    }
    Some(Guard { tid })
}
#[inline]
pub fn current_tid() -> Option<usize> {
    let tid = TID.try_with(|c| c.get()).unwrap_or(usize::MAX);
    if tid == usize::MAX {
        None
    } else {
        Some(tid)
    }
}

#[inline]
fn sim<'a>() -> &'a mut Sim {
    unsafe { &mut *SIM.load(Ordering::Acquire) }
}

fn fnv(h: &mut u64, x: u64) {
    let mut v = *h;
    for i in 0..8 {
        v ^= (x >> (i * 8)) & 0xff;
        v = v.wrapping_mul(0x100000001b3);
    }
    *h = v;
}

#[derive(Clone, Copy, Debug, PartialEq)]
pub enum Pt {
    FutexWake = 1,
    Yield = 2,
    Alloc = 3,
    Clock = 4,
    Read = 5,
    Write = 6,
    Open = 7,
    Probe = 8,
    Spawn = 9,
    Block = 10,
    Exit = 11,
    Atomic = 12,
    AtomicLoad = 13,
}

impl Sim {
    fn ev(&mut self, tid: usize, kind: Pt, a_: u64, b_: u64) {
        let (a, b) = (a_, b_);
        fnv(&mut self.stats.trace_hash, ((tid as u64) << 8) | kind as u64);
        fnv(&mut self.stats.trace_hash, a);
        fnv(&mut self.stats.trace_hash, b);
        if let Some((a, b)) = trace_range() {
            if self.stats.steps >= a && self.stats.steps <= b {
                let msg = format!("EV {} t{} {:?} {} {}\n", self.stats.steps, tid, kind, a_, b_);
                raw_write_fd(2, msg.as_bytes());
            }
        }
        if let Some(t) = &mut self.trace {
            t.push(format!("{} t{} {:?} {} {}", self.stats.steps, tid, kind, a, b));
        }
    }

    fn fatal(&mut self, what: &str) -> ! {
        // executed by the token holder; the process ends here. For budget stops, say *where* the
        // thread was: the outermost frame of the code under test that owns a loop (k-shortest-path
        // algorithm, plugin, ...), else the innermost frame of the code under test.
        let site = if what.contains("budget") { stack_site() } else { String::new() };
        let what = if site.is_empty() { what.to_string() } else { format!("{} @{}", what, site) };
        // who was doing what (diagnosis of a budget stop: a thread that spins while another never wakes)
        let mut diag = format!("cur=t{} clock_ns={} live={}", self.cur, self.clock_ns, self.live);
        for t in 0..self.nthreads {
            let st = match self.slots[t].state {
                TState::Unused => "unused".to_string(),
                TState::Starting => "starting".to_string(),
                TState::Runnable => "runnable".to_string(),
                TState::Finished => "finished".to_string(),
                TState::Blocked { addr, deadline, seq } => format!("blocked(addr={:x},deadline={:?},seq={})", addr, deadline, seq),
            };
            if self.slots[t].state != TState::Finished {
                diag.push_str(&format!(" t{}:{}{}", t, st, if self.slots[t].pthread == 0 { "[no handle]" } else { "" }));
            }
        }
        let msg = format!("{{\"fatal\":{:?},\"steps\":{},\"switches\":{},\"diag\":{:?}}}\n", what, self.stats.steps, self.stats.switches, diag);
        unsafe {
            if let Some(h) = FATAL_CB {
                h(&what, self);
            }
        }
        raw_write_fd(self.fatal_fd, msg.as_bytes());
        raw_exit(3)
    }

    fn runnable(&self, me: usize) -> Vec<usize> {
        let mut v = Vec::with_capacity(self.nthreads);
        if self.slots[me].state == TState::Runnable {
            v.push(me);
        }
        for t in 0..self.nthreads {
            if t != me && self.slots[t].state == TState::Runnable {
                v.push(t);
            }
        }
        v
    }

    fn grant(&mut self, t: usize) {
        self.cur = t;
        self.slots[t].park.store(1, Ordering::Release);
        unsafe { raw_futex_wake(&self.slots[t].park, 1) };
    }

    fn wait_token(&mut self, me: usize) {
        let p: *const AtomicU32 = &self.slots[me].park;
        unsafe {
            loop {
                if (*p).swap(0, Ordering::Acquire) == 1 {
                    break;
                }
                raw_futex_wait(p, 0);
            }
        }
    }

    /// choose who runs next; `me` may or may not be runnable.
    fn pick(&mut self, me: usize, kind: Pt) -> Option<usize> {
        let mut opts = self.runnable(me);
        // at a yield the default choice (0: what an empty or shortened recorded schedule falls back to) is to hand
        // over to the next runnable thread, not to stay: a thread that waits by yielding must not spin for ever
        // in a minimised replay
        let yielding_runnable = kind == Pt::Yield && opts.len() > 1 && opts[0] == me;
        if yielding_runnable {
            opts.rotate_left(1);
        }
        if std::env::var_os("SIM_DEBUG_PICK").is_some() && self.pct_points.contains(&self.stats.steps) {
            let states: Vec<String> = (0..self.nthreads).map(|t| format!("{}:{:?}:{}", t, self.slots[t].state, self.slots[t].prio)).collect();
            let msg = format!("PICK step={} me={} kind={:?} opts={:?} states={:?}\n", self.stats.steps, me, kind, opts, states);
            raw_write_fd(2, msg.as_bytes());
        }
        if opts.is_empty() {
            return None;
        }
        if opts.len() == 1 {
            return Some(opts[0]);
        }
        if self.quiet {
            // trivial schedule: keep running; a yielding thread hands over round-robin
            if kind == Pt::Yield && opts[0] == me {
                return Some(opts[1]);
            }
            return Some(opts[0]);
        }
        let me_runnable = opts.contains(&me);
        let n = opts.len();
        let cfg_sched = self.cfg.sched.clone();
        let p_stay = self.cfg.p_stay;
        let steps = self.stats.steps;
        // PCT bookkeeping
        if cfg_sched == SchedMode::Pct {
            if let Some(pos) = self.pct_points.iter().position(|p| *p == steps) {
                self.pct_points.remove(pos);
                // demote the running thread below everything else
                let low = self.slots[..self.nthreads].iter().map(|s| s.prio).min().unwrap_or(0);
                self.slots[me].prio = low - 1;
            }
            if kind == Pt::Yield {
                let low = self.slots[..self.nthreads].iter().map(|s| s.prio).min().unwrap_or(0);
                self.slots[me].prio = low - 1;
            }
        }
        if cfg_sched == SchedMode::PctSync && !self.dec.replay {
            if kind == Pt::Yield {
                let low = self.slots[..self.nthreads].iter().map(|s| s.prio).min().unwrap_or(0);
                self.slots[me].prio = low - 1;
            } else if kind != Pt::Alloc && me_runnable && self.sync_demotions < self.cfg.pct_depth {
                let q = 1.0 / (self.cfg.pct_horizon.max(2) as f64);
                if self.dec.sched_rng.chance(q) {
                    if std::env::var_os("SIM_DEBUG_PICK").is_some() {
                        let msg = format!("DEMOTE step={} me={} kind={:?} opts={:?}\n", self.stats.steps, me, kind, opts);
                        raw_write_fd(2, msg.as_bytes());
                    }
                    self.sync_demotions += 1;
                    let low = self.slots[..self.nthreads].iter().map(|s| s.prio).min().unwrap_or(0);
                    self.slots[me].prio = low - 1;
                }
            }
        }
        let prios: Vec<i64> = opts.iter().map(|t| self.slots[*t].prio).collect();
        let yielding = kind == Pt::Yield;
        let wake_boost = self.just_woken && me_runnable;
        let c = self.dec.sched_choice(n, |rng| match cfg_sched {
            SchedMode::Random => {
                if wake_boost && n > 1 && rng.chance(0.5) {
                    1 + rng.below(n as u64 - 1) as usize
                } else if me_runnable && !yielding && rng.chance(p_stay) {
                    0
                } else if me_runnable && yielding {
                    // a yield hands over to somebody else most of the time (the yielding thread is the last option)
                    if rng.chance(0.1) { n - 1 } else { rng.below(n as u64 - 1) as usize }
                } else {
                    rng.below(n as u64) as usize
                }
            }
            SchedMode::Pct | SchedMode::PctSync => {
                let mut best = 0;
                for i in 1..n {
                    if prios[i] > prios[best] {
                        best = i;
                    }
                }
                best
            }
            SchedMode::Cooperative => {
                if me_runnable && !yielding {
                    0
                } else if me_runnable {
                    rng.below(n as u64 - 1) as usize
                } else {
                    rng.below(n as u64) as usize
                }
            }
        });
        Some(opts[c])
    }

    fn count_step(&mut self) {
        self.stats.steps += 1;
        if self.stats.steps > self.cfg.max_steps {
            self.fatal("step budget exceeded");
        }
    }

    /// a scheduling point at which `me` stays runnable
    fn sched_point(&mut self, me: usize, kind: Pt) {
        self.count_step();
        let next = self.pick(me, kind).unwrap_or(me);
        if next != me {
            self.stats.switches += 1;
            if kind != Pt::Yield {
                self.stats.preemptions += 1;
            }
            fnv(&mut self.stats.sched_hash, (self.stats.steps << 8) | next as u64);
            self.ev(me, kind, next as u64, 1);
            self.grant(next);
            self.wait_token(me);
        }
    }

    /// `me` is not runnable any more (blocked or finished): hand the token on.
    fn hand_over(&mut self, me: usize, wait: bool) {
        self.count_step();
        loop {
            match self.pick(me, Pt::Block) {
                Some(next) => {
                    self.stats.switches += 1;
                    fnv(&mut self.stats.sched_hash, (self.stats.steps << 8) | next as u64);
                    self.grant(next);
                    break;
                }
                None => {
                    // nobody runnable: timed waiters?
                    let mut best: Option<(u64, usize)> = None;
                    for t in 0..self.nthreads {
                        if let TState::Blocked { deadline: Some(d), .. } = self.slots[t].state {
                            if best.map_or(true, |(bd, _)| d < bd) {
                                best = Some((d, t));
                            }
                        }
                    }
                    match best {
                        Some((d, t)) => {
                            if d > self.clock_ns {
                                self.clock_ns = d;
                            }
                            self.slots[t].state = TState::Runnable;
                            self.slots[t].timed_out = true;
                            continue;
                        }
                        None => {
                            if self.live == 0 {
                                return;
                            }
                            self.fatal("deadlock: no runnable thread");
                        }
                    }
                }
            }
        }
        if wait {
            self.wait_token(me);
        }
    }

    fn addr_id(&mut self, addr: usize) -> u64 {
        let n = self.addr_ids.len() as u32;
        *self.addr_ids.entry(addr).or_insert(n) as u64
    }

    fn fault_enabled(&self, f: u32) -> bool {
        !self.quiet && (self.cfg.faults & f) != 0
    }
    fn count_fault(&mut self, k: &str) {
        *self.stats.faults.entry(k.to_string()).or_insert(0) += 1;
    }
}

/// where is the current thread inside the code under test? (symbol names, no addresses)
fn stack_site() -> String {
    let bt = std::backtrace::Backtrace::force_capture().to_string();
    let mut frames: Vec<String> = vec![];
    for line in bt.lines() {
        let l = line.trim();
        if let Some(pos) = l.find(": ") {
            let name = &l[pos + 2..];
            if name.starts_with("routee_compass") || name.starts_with("<routee_compass") {
                // strip the hash suffix and generic arguments
                let name = name.split("::h").next().unwrap_or(name);
                frames.push(name.to_string());
            }
        }
    }
    // frames are innermost first
    let owners = ["ksp::yens_algorithm", "ksp::single_via_paths_algorithm", "plugin::input::default::", "plugin::output::default::", "util::multiset"];
    for f in frames.iter().rev() {
        for o in owners.iter() {
            if let Some(i) = f.find(o) {
                let rest = &f[i..];
                let seg: Vec<&str> = rest.split("::").take(if o.ends_with("::") { 5 } else { 2 }).collect();
                return seg.join("::");
            }
        }
    }
    frames.first().cloned().unwrap_or_else(|| "unknown".to_string())
}

fn trace_range() -> Option<(u64, u64)> {
    static R: std::sync::OnceLock<Option<(u64, u64)>> = std::sync::OnceLock::new();
    *R.get_or_init(|| std::env::var("SIM_TRACE_RANGE").ok().and_then(|v| {
        let mut p = v.split('-');
        Some((p.next()?.parse().ok()?, p.next()?.parse().ok()?))
    }))
}

static mut FATAL_CB: Option<fn(&str, &mut Sim)> = None;
pub fn set_fatal_cb(f: fn(&str, &mut Sim)) {
    unsafe { FATAL_CB = Some(f) }
}

// ---------------------------------------------------------------------------
// public API for the harness
// ---------------------------------------------------------------------------

/// Create the simulator and register the calling thread as thread 0 (the root).
pub fn start(cfg: SimCfg, dec: Decider, fatal_fd: i32) {
    let mut slots = Vec::with_capacity(MAX_THREADS);
    for _ in 0..MAX_THREADS {
        slots.push(Slot {
            pthread: 0,
            park: AtomicU32::new(0),
            state: TState::Unused,
            timed_out: false,
            alloc_count: 0,
            alloc_bytes: 0,
            atomic_count: 0,
            atomic_load_count: 0,
            clock_off: 0,
            prio: 0,
            yields_in_row: 0,
            handle_recycled: false,
        });
    }
    let mut s = Box::new(Sim {
        slots,
        nthreads: 1,
        live: 1,
        cur: 0,
        block_seq: 0,
        cfg,
        dec,
        stats: Stats::default(),
        files: BTreeMap::new(),
        fds: BTreeMap::new(),
        clock_ns: 0,
        io_idx: 0,
        open_idx: 0,
        clock_idx: 0,
        unlinked: 0,
        wall_back_ns: 0,
        probe_idx: 0,
        hard_faults: 0,
        broken_write_paths: BTreeMap::new(),
        pipe_opens: BTreeMap::new(),
        addr_ids: BTreeMap::new(),
        pct_points: vec![],
        sync_demotions: 0,
        just_woken: false,
        quiet: true,
        probes: vec![],
        trace: None,
        clock_log: vec![],
        log_clock: false,
        fatal_fd,
    });
    s.stats.trace_hash = 0xcbf29ce484222325;
    s.stats.sched_hash = 0xcbf29ce484222325;
    s.slots[0].state = TState::Runnable;
    s.slots[0].pthread = unsafe { libc::pthread_self() };
    s.slots[0].prio = 1 << 41;
    s.stats.threads = 1;
    SIM.store(Box::into_raw(s), Ordering::Release);
    TID.with(|c| c.set(0));
    start_watchdog();
}

/// Wall-clock backstop for loops that contain no scheduling point at all (no allocation, lock or
/// system call): an un-simulated thread watches the step counter; when it has not moved for
/// STALL_SECS it signals the thread holding the token, whose handler reports where it is and stops
/// the run. Only ever fires on a thread that would otherwise spin until the parent's kill.
const STALL_SECS: u64 = 4;
extern "C" fn on_stall(_sig: libc::c_int) {
    let p = SIM.load(Ordering::Acquire);
    if p.is_null() {
        return;
    }
    IN_SIM.with(|c| c.set(true));
    // unwinding from an asynchronous signal frame can itself fault: report that instead of crashing
    unsafe {
        let mut sa: libc::sigaction = std::mem::zeroed();
        sa.sa_sigaction = on_segv_in_stall as usize;
        sa.sa_flags = libc::SA_NODEFER;
        libc::sigaction(libc::SIGSEGV, &sa, std::ptr::null_mut());
        libc::sigaction(libc::SIGBUS, &sa, std::ptr::null_mut());
    }
    let s = unsafe { &mut *p };
    s.fatal("stall budget exceeded: no scheduling point for several seconds of wall-clock time");
}
extern "C" fn on_segv_in_stall(_sig: libc::c_int) {
    let p = SIM.load(Ordering::Acquire);
    let fd = if p.is_null() { 2 } else { unsafe { (*p).fatal_fd } };
    raw_write_fd(fd, b"{\"fatal\":\"stall budget exceeded: no scheduling point for several seconds of wall-clock time @unwind-failed\"}\n");
    raw_exit(3)
}
fn start_watchdog() {
    with_raw_spawn(start_watchdog_inner)
}
fn start_watchdog_inner() {
    unsafe {
        let mut sa: libc::sigaction = std::mem::zeroed();
        sa.sa_sigaction = on_stall as usize;
        sa.sa_flags = 0;
        libc::sigaction(libc::SIGUSR2, &sa, std::ptr::null_mut());
    }
    // (the watchdog is the one thread of the process that is not simulated. The standard library's thread prologue
    // takes a process-wide lock - stack-overflow bookkeeping - which every simulated thread takes too when it
    // starts: the simulation goes on only once the watchdog is past it, or a simulated thread could find the lock
    // taken, block in the simulator, and wait for a wake the simulator never sees)
    static WATCHDOG_UP: AtomicU32 = AtomicU32::new(0);
    WATCHDOG_UP.store(0, Ordering::SeqCst);
    let spawned = std::thread::Builder::new().name("sim-watchdog".into()).spawn(|| {
        WATCHDOG_UP.store(1, Ordering::SeqCst);
        let mut last = u64::MAX;
        let mut same = 0u64;
        loop {
            std::thread::sleep(std::time::Duration::from_secs(1));
            let p = SIM.load(Ordering::Acquire);
            if p.is_null() {
                return;
            }
            let (steps, allocs, cur_thread) = unsafe {
                let s = &*p;
                let cur = std::ptr::read_volatile(&s.cur);
                (std::ptr::read_volatile(&s.stats.steps), std::ptr::read_volatile(&s.slots[cur].alloc_bytes), std::ptr::read_volatile(&s.slots[cur].pthread))
            };
            let mark = steps.wrapping_mul(31).wrapping_add(allocs);
            if mark == last {
                same += 1;
                if same >= STALL_SECS && cur_thread != 0 {
                    unsafe { libc::pthread_kill(cur_thread, libc::SIGUSR2) };
                    return;
                }
            } else {
                same = 0;
                last = mark;
            }
        }
    });
    while spawned.is_ok() && WATCHDOG_UP.load(Ordering::SeqCst) == 0 {
        std::hint::spin_loop();
    }
}

/// Access the simulator from harness code running on a registered thread (token holder).
pub fn with<R>(f: impl FnOnce(&mut Sim) -> R) -> R {
    let g = enter();
    let r = f(sim());
    drop(g);
    r
}

/// switch between the quiet phase (no faults, trivial schedule; used for reference runs and setup)
/// and the explored phase. Entering the explored phase (re)draws PCT change points.
pub fn set_quiet(q: bool) {
    with(|s| {
        s.quiet = q;
        // the byte budget is per phase
        for sl in s.slots.iter_mut() {
            sl.alloc_bytes = 0;
        }
        if !q && s.cfg.sched == SchedMode::Pct {
            let base = s.stats.steps;
            // the horizon must match the length of the explored phase or every change point lands in
            // its first part. The quiet reference phase did the same work query by query, so its
            // allocation count predicts the number of allocation points to come; the configured
            // horizon is a per-run multiplier (percent) on that estimate.
            let allocs: u64 = s.slots.iter().map(|sl| sl.alloc_count).sum();
            let every = s.cfg.alloc_every;
            let est = if every == 0 { 400 } else { allocs / every / 2 + 400 };
            let pct = match s.cfg.pct_horizon {
                0..=200 => 10,
                201..=1000 => 50,
                1001..=5000 => 100,
                _ => 200,
            };
            let h = (est * pct / 100).max(50);
            let mut pts = vec![];
            for _ in 0..s.cfg.pct_depth {
                let p = if s.dec.replay { 0 } else { s.dec.sched_rng.below(h) };
                pts.push(base + p);
            }
            // on replay the change points are irrelevant: every decision is recorded explicitly
            if !s.dec.replay {
                s.pct_points = pts;
                // experimentation aid: one explicit change point
                if let Some(k) = std::env::var("SIM_PCT_POINT").ok().and_then(|k| k.parse::<u64>().ok()) {
                    s.pct_points = vec![k]; // absolute step
                }
            }
        }
    })
}

/// called by the spawner (token holder) before creating the OS thread
pub fn register_thread() -> usize {
    with(|s| {
        let id = s.nthreads;
        if id >= MAX_THREADS {
            s.fatal("too many threads");
        }
        s.nthreads += 1;
        s.live += 1;
        s.stats.threads += 1;
        s.slots[id].state = TState::Starting;
        s.slots[id].prio = if s.dec.replay { 0 } else { (s.dec.sched_rng.next_u64() >> 24) as i64 + (1 << 20) };
        id
    })
}
/// called by the spawner after `spawn` returned: the new thread may now be scheduled
pub fn thread_spawned(id: usize) {
    thread_spawned_as(id, 0)
}
/// ... with the handle the creator was given. The C library recycles handles (the stack of a thread that has
/// really exited - at a moment the simulator does not control - is handed to the next one created), so a slot of
/// a finished thread must not keep a handle that now names a new thread.
pub fn thread_spawned_as(id: usize, handle: libc::pthread_t) {
    with(|s| {
        s.slots[id].state = TState::Runnable;
        if handle != 0 {
            for t in 1..s.nthreads {
                if t != id && s.slots[t].pthread == handle {
                    s.slots[t].pthread = 0;
                    s.slots[t].handle_recycled = true;
                }
            }
            s.slots[id].pthread = handle;
        }
        let me = s.cur;
        s.ev(me, Pt::Spawn, id as u64, 0);
    })
}
/// first thing a new simulated thread does
pub fn thread_begin(id: usize) {
    // not registered yet: wait for the token without touching simulator state
    let s = sim();
    s.wait_token(id);
    let me = unsafe { libc::pthread_self() };
    for t in 1..s.nthreads {
        if t != id && s.slots[t].pthread == me {
            s.slots[t].pthread = 0;
            s.slots[t].handle_recycled = true;
        }
    }
    s.slots[id].pthread = me;
    TID.with(|c| c.set(id));
}
/// last thing a simulated thread does
pub fn thread_end() {
    let g = enter().expect("thread_end on unregistered thread");
    let s = sim();
    let me = g.tid;
    s.slots[me].state = TState::Finished;
    s.live -= 1;
    s.ev(me, Pt::Exit, 0, 0);
    TID.with(|c| c.set(usize::MAX));
    s.hand_over(me, false);
    drop(g);
}

/// root: run until every other simulated thread has finished
pub fn join_all() {
    loop {
        let done = with(|s| s.live <= 1);
        if done {
            break;
        }
        yield_now();
    }
}

/// tear down; returns the simulator for inspection. Only the root may call this, after join_all.
pub fn finish() -> Box<Sim> {
    let g = enter();
    let p = SIM.swap(std::ptr::null_mut(), Ordering::AcqRel);
    TID.with(|c| c.set(usize::MAX));
    drop(g);
    let mut s = unsafe { Box::from_raw(p) };
    s.stats.sim_time_ns = s.clock_ns - s.stats.idle_ns; // (idle gaps between run() calls are not "time covered")
    s
}

/// the system sits idle: simulated time passes, nothing else happens
pub fn advance_clock(ns: u64) {
    with(|s| {
        s.clock_ns += ns;
        s.stats.idle_ns += ns;
    })
}

pub fn yield_now() {
    if let Some(g) = enter() {
        let s = sim();
        s.stats.yields += 1;
        s.sched_point(g.tid, Pt::Yield);
    }
}

/// a probe call from harness-supplied wrappers running inside the system (traits the code already has).
/// It is logged, is a scheduling point, and can carry a thread-stall fault.
pub fn probe(kind: u32, a: u64, b: u64) {
    if let Some(g) = enter() {
        let s = sim();
        let me = g.tid;
        s.stats.probes += 1;
        let idx = s.probe_idx;
        s.probe_idx += 1;
        if s.fault_enabled(F_THREAD_STALL) && kind == PROBE_EXPAND {
            let rate = s.cfg.clock_fault_rate;
            let jump = s.cfg.clock_jump_ns;
            if let Some((_k, arg)) = s.dec.fault_at("probe", idx, |r| if r.chance(rate) { Some(("thread_stall", jump)) } else { None }) {
                s.slots[me].clock_off += arg;
                s.count_fault("thread_stall");
            }
        }
        let clock = s.clock_ns + s.slots[me].clock_off;
        if !s.quiet || s.log_clock {
            s.probes.push(ProbeEv { step: s.stats.steps, tid: me, kind, a, b, clock });
        }
        s.ev(me, Pt::Probe, ((kind as u64) << 32) | a, b);
        s.sched_point(me, Pt::Probe);
    }
}
pub const PROBE_BUILD: u32 = 1;
pub const PROBE_EXPAND: u32 = 2;
pub const PROBE_ESTIMATE: u32 = 3;
pub const PROBE_DONE: u32 = 4;
pub const PROBE_SEARCH_END: u32 = 5;

// ---------------------------------------------------------------------------
// hooks called from the interposed libc symbols
// ---------------------------------------------------------------------------

pub fn hook_alloc(size: usize) {
    let tid = match TID.try_with(|c| c.get()) {
        Ok(t) if t != usize::MAX => t,
        _ => return,
    };
    if IN_SIM.with(|c| c.get()) {
        return;
    }
    let p = SIM.load(Ordering::Acquire);
    if p.is_null() {
        return;
    }
    let s = unsafe { &mut *p };
    // always counted (the stall watchdog and the byte budget also cover the quiet reference phase);
    // only the explored phase turns allocations into scheduling points
    s.slots[tid].alloc_count += 1;
    s.slots[tid].alloc_bytes += size as u64;
    let every = s.cfg.alloc_every;
    if s.slots[tid].alloc_bytes > s.cfg.max_alloc_bytes {
        if let Some(_g) = enter() {
            s.fatal("allocation budget exceeded");
        }
    }
    if every != 0 && !s.quiet && s.slots[tid].alloc_count % every == 0 {
        if let Some(g) = enter() {
            s.stats.alloc_points += 1;
            if let Ok(pat) = std::env::var("SIM_DEBUG_SITE") {
                let bt = std::backtrace::Backtrace::force_capture().to_string();
                if bt.contains(&pat) {
                    let msg = format!("SITE step={} tid={} quiet={}\n", s.stats.steps + 1, g.tid, s.quiet);
                    raw_write_fd(2, msg.as_bytes());
                }
            }
            s.sched_point(g.tid, Pt::Alloc);
        }
    }
}

/// an acquire/release atomic write in instrumented code (see tsan_rt.rs)
pub fn hook_atomic() {
    let tid = match TID.try_with(|c| c.get()) {
        Ok(t) if t != usize::MAX => t,
        _ => return,
    };
    if IN_SIM.with(|c| c.get()) {
        return;
    }
    let p = SIM.load(Ordering::Acquire);
    if p.is_null() {
        return;
    }
    let s = unsafe { &mut *p };
    let every = s.cfg.atomic_every;
    if every == 0 || s.quiet {
        return;
    }
    s.slots[tid].atomic_count += 1;
    if s.slots[tid].atomic_count % every == 0 {
        if let Some(g) = enter() {
            s.stats.atomic_points += 1;
            if let Ok(pat) = std::env::var("SIM_DEBUG_SITE") {
                let bt = std::backtrace::Backtrace::force_capture().to_string();
                if bt.contains(&pat) {
                    let msg = format!("ASITE step={} tid={}\n", s.stats.steps + 1, g.tid);
                    raw_write_fd(2, msg.as_bytes());
                }
            }
            s.sched_point(g.tid, Pt::Atomic);
        }
    }
}

/// an atomic load or relaxed store in instrumented code (see tsan_rt.rs)
pub fn hook_atomic_load() {
    let tid = match TID.try_with(|c| c.get()) {
        Ok(t) if t != usize::MAX => t,
        _ => return,
    };
    if IN_SIM.with(|c| c.get()) {
        return;
    }
    let p = SIM.load(Ordering::Acquire);
    if p.is_null() {
        return;
    }
    let s = unsafe { &mut *p };
    let every = s.cfg.atomic_load_every;
    if every == 0 || s.quiet {
        return;
    }
    s.slots[tid].atomic_load_count += 1;
    if s.slots[tid].atomic_load_count % every == 0 {
        if let Some(g) = enter() {
            s.stats.atomic_points += 1;
            s.sched_point(g.tid, Pt::AtomicLoad);
        }
    }
}

const FUTEX_CMD_MASK: i32 = 0x7f;

/// returns None when the call should pass through to the kernel
pub unsafe fn hook_futex(addr: *const AtomicU32, op: i32, val: u32, timeout: *const libc::timespec, _a5: i64, val3: u32) -> Option<(i64, i32)> {
    let g = enter()?;
    let s = sim();
    let me = g.tid;
    let cmd = op & FUTEX_CMD_MASK;
    match cmd {
        libc::FUTEX_WAIT | libc::FUTEX_WAIT_BITSET => {
            let _ = val3;
            if (*addr).load(Ordering::SeqCst) != val {
                return Some((-1, libc::EAGAIN));
            }
            s.stats.futex_waits += 1;
            if !s.quiet && s.cfg.spurious_wake_rate > 0.0 {
                let rate = s.cfg.spurious_wake_rate;
                let widx = s.stats.futex_waits;
                if s.dec.fault_at("futex", widx, |r| if r.chance(rate) { Some(("spurious_wake", 0)) } else { None }).is_some() {
                    s.count_fault("spurious_wake");
                    s.ev(me, Pt::Block, 0, 2);
                    s.sched_point(me, Pt::Yield);
                    return Some((0, 0));
                }
            }
            let deadline = if timeout.is_null() {
                None
            } else {
                let ts = *timeout;
                let ns = ts.tv_sec as u64 * 1_000_000_000 + ts.tv_nsec as u64;
                if cmd == libc::FUTEX_WAIT {
                    Some(s.clock_ns + ns) // relative
                } else if op & libc::FUTEX_CLOCK_REALTIME != 0 {
                    Some(ns.saturating_sub(REALTIME_EPOCH_NS.saturating_sub(s.wall_back_ns)))
                } else {
                    Some(ns.saturating_sub(MONO_BASE_NS))
                }
            };
            if std::env::var_os("SIM_DEBUG_BLOCK").is_some() {
                let bt = std::backtrace::Backtrace::force_capture().to_string();
                let full = std::env::var("SIM_DEBUG_BLOCK").map_or(false, |v| v == "full");
                let short: Vec<&str> = bt.lines().filter(|l| full || l.contains("rayon") || l.contains("std::thread") || l.contains("sync") || l.contains("routee") || l.contains("compass_sim")).take(if full { 80 } else { 14 }).collect();
                let msg = format!("BLOCK step={} t{} addr={:x}\n{}\n", s.stats.steps, me, addr as usize, short.join("\n"));
                raw_write_fd(2, msg.as_bytes());
            }
            s.block_seq += 1;
            let seq = s.block_seq;
            s.slots[me].state = TState::Blocked { addr: addr as usize, deadline, seq };
            s.slots[me].timed_out = false;
            // (the identity of the futex word is not part of the hashed history: whether a freed lock's address
            // is reused by a later one depends on the allocator state the child inherited, not on the run)
            s.ev(me, Pt::Block, 0, 0);
            s.hand_over(me, true);
            if s.slots[me].timed_out {
                s.slots[me].timed_out = false;
                Some((-1, libc::ETIMEDOUT))
            } else {
                Some((0, 0))
            }
        }
        libc::FUTEX_WAKE | libc::FUTEX_WAKE_BITSET => {
            s.stats.futex_wakes += 1;
            let mut waiters: Vec<(u64, usize)> = vec![];
            for t in 0..s.nthreads {
                if let TState::Blocked { addr: a, seq, .. } = s.slots[t].state {
                    if a == addr as usize {
                        waiters.push((seq, t));
                    }
                }
            }
            waiters.sort();
            let mut woken = 0;
            let mut n = val as usize;
            while n > 0 && !waiters.is_empty() {
                // which waiter is woken is a legal nondeterminism: the decider chooses (0 = FIFO)
                let k = waiters.len();
                let quiet = s.quiet;
                let c = if k == 1 || quiet { 0 } else { s.dec.sched_choice(k, |r| r.below(k as u64) as usize) };
                let (_, t) = waiters.remove(c);
                s.slots[t].state = TState::Runnable;
                woken += 1;
                n -= 1;
            }
            s.ev(me, Pt::FutexWake, 0, woken as u64);
            if woken > 0 {
                // kernels often run the wakee right away (wake-up preemption): the random policy
                // hands over to a just-woken thread half of the time
                s.just_woken = true;
                s.sched_point(me, Pt::FutexWake);
                s.just_woken = false;
            }
            Some((woken, 0))
        }
        _ => None,
    }
}

pub fn hook_sched_yield() -> bool {
    match enter() {
        Some(g) => {
            let s = sim();
            s.stats.yields += 1;
            s.slots[g.tid].yields_in_row += 1;
            s.sched_point(g.tid, Pt::Yield);
            true
        }
        None => false,
    }
}

/// a simulated thread sleeps: simulated time advances by the requested duration (nobody waits in real
/// time) and the thread yields. Counted as a step, so a loop that sleeps forever meets the step budget.
pub fn hook_sleep(ns: u64) -> bool {
    match enter() {
        Some(g) => {
            let s = sim();
            s.clock_ns = s.clock_ns.saturating_add(ns);
            s.stats.yields += 1;
            s.ev(g.tid, Pt::Yield, ns, 7);
            s.sched_point(g.tid, Pt::Yield);
            true
        }
        None => false,
    }
}

pub fn hook_getrandom(buf: &mut [u8]) -> bool {
    match enter() {
        Some(_g) => {
            let s = sim();
            s.stats.getrandom_calls += 1;
            for chunk in buf.chunks_mut(8) {
                let v = s.dec.rand_rng.next_u64().to_le_bytes();
                chunk.copy_from_slice(&v[..chunk.len()]);
            }
            true
        }
        None => false,
    }
}

/// returns nanoseconds for the given clock id
pub fn hook_clock(clk: i32) -> Option<u64> {
    let g = enter()?;
    let s = sim();
    let me = g.tid;
    s.stats.clock_reads += 1;
    let idx = s.clock_idx;
    s.clock_idx += 1;
    s.clock_ns += s.cfg.clock_tick_ns;
    if s.fault_enabled(F_CLOCK_JUMP) {
        let rate = s.cfg.clock_fault_rate;
        let jump = s.cfg.clock_jump_ns;
        if let Some((_k, arg)) = s.dec.fault_at("clock", idx, |r| if r.chance(rate) { Some(("clock_jump", jump)) } else { None }) {
            s.clock_ns += arg;
            s.count_fault("clock_jump");
        }
    }
    let v = s.clock_ns + s.slots[me].clock_off;
    if s.log_clock {
        // clock reads join the probe history (kind 100 + clock id), so a reference model can walk one
        // totally ordered per-thread event stream
        s.probes.push(ProbeEv { step: s.stats.steps, tid: me, kind: 100 + clk as u32, a: idx, b: 0, clock: v });
    }
    s.ev(me, Pt::Clock, clk as u64, v);
    if !s.quiet {
        s.sched_point(me, Pt::Clock);
    }
    let realtime = matches!(clk, libc::CLOCK_REALTIME | libc::CLOCK_REALTIME_COARSE);
    if realtime && !s.quiet && s.cfg.wall_step_rate > 0.0 {
        let rate = s.cfg.wall_step_rate;
        let step = s.cfg.wall_step_ns;
        if let Some((_k, arg)) = s.dec.fault_at("wall", idx, |r| if r.chance(rate) { Some(("wall_clock_step_back", step)) } else { None }) {
            s.wall_back_ns += arg;
            s.count_fault("wall_clock_step_back");
        }
    }
    let base = if realtime { REALTIME_EPOCH_NS.saturating_sub(s.wall_back_ns) } else { MONO_BASE_NS };
    Some(base + v)
}

pub fn is_sim_path(p: &[u8]) -> bool {
    p.starts_with(VROOT.as_bytes()) || p == b"/sim"
}

fn path_faultable(s: &Sim, path: &str) -> bool {
    s.cfg.fault_paths.is_empty() || s.cfg.fault_paths.iter().any(|p| path.contains(p.as_str()))
}

/// open a simulated file. Returns Some(Ok(fd)) / Some(Err(errno)); None = not simulated
pub fn hook_open(path: &[u8], flags: i32) -> Option<Result<i32, i32>> {
    if !is_sim_path(path) {
        return None;
    }
    let g = enter()?;
    let s = sim();
    let me = g.tid;
    let p = String::from_utf8_lossy(path).to_string();
    s.stats.sim_opens += 1;
    let oidx = s.open_idx;
    s.open_idx += 1;
    if !s.quiet {
        s.sched_point(me, Pt::Open);
    }
    let exists = s.files.contains_key(&p);
    if p == "/sim" || p == "/sim/" {
        return Some(Err(libc::EISDIR));
    }
    if !exists && flags & libc::O_CREAT == 0 {
        return Some(Err(libc::ENOENT));
    }
    if exists && flags & libc::O_CREAT != 0 && flags & libc::O_EXCL != 0 {
        return Some(Err(libc::EEXIST));
    }
    // faults at open time are decided before the call has any effect on the file system
    let acc = flags & libc::O_ACCMODE;
    if acc == libc::O_RDONLY && !s.quiet && s.cfg.pipe_like_paths.iter().any(|x| p.contains(x.as_str())) {
        // a FIFO whose producer wrote once and closed: the first reader gets the data, a second open for reading
        // finds no writer and blocks for good
        let n = s.pipe_opens.entry(p.clone()).or_insert(0);
        *n += 1;
        if *n > 1 {
            s.block_seq += 1;
            let seq = s.block_seq;
            s.slots[me].state = TState::Blocked { addr: usize::MAX - oidx as usize, deadline: None, seq };
            s.ev(me, Pt::Block, 0, 1);
            s.hand_over(me, true);
        }
    }
    let mut limit = None;
    let damage_ok = s.cfg.trunc_paths.is_empty() || s.cfg.trunc_paths.iter().any(|t| p.contains(t.as_str()));
    let trunc_ok = acc == libc::O_RDONLY && s.fault_enabled(F_TRUNC_READ) && damage_ok;
    let eopen_ok = s.fault_enabled(F_EOPEN);
    if (trunc_ok || eopen_ok) && s.hard_faults < s.cfg.max_hard_faults && path_faultable(s, &p) {
        let len = s.files.get(&p).map_or(0, |f| f.data.len()) as u64;
        let rate = s.cfg.io_fault_rate;
        let f = s.dec.fault_at("open", oidx, |r| {
            if !r.chance(rate) {
                return None;
            }
            let mut kinds: Vec<&'static str> = vec![];
            if trunc_ok && len > 0 {
                kinds.push("trunc_read");
            }
            if eopen_ok {
                kinds.push("eopen");
            }
            if kinds.is_empty() {
                return None;
            }
            let k = *r.pick(&kinds);
            Some((k, if k == "trunc_read" { r.below(len) } else { r.below(4) }))
        });
        if let Some((k, arg)) = f {
            s.hard_faults += 1;
            s.count_fault(&k);
            if k == "eopen" {
                s.ev(me, Pt::Open, oidx, u64::MAX);
                return Some(Err([libc::EMFILE, libc::EACCES, libc::EIO, libc::ENOMEM][(arg % 4) as usize]));
            }
            limit = Some(arg as usize);
        }
    }
    if !exists {
        let now = REALTIME_EPOCH_NS + s.clock_ns;
        s.files.insert(p.clone(), VFile { data: vec![], mtime_ns: now });
    }
    if flags & libc::O_TRUNC != 0 {
        let now = REALTIME_EPOCH_NS + s.clock_ns;
        let f = s.files.get_mut(&p).unwrap();
        f.data.clear();
        f.mtime_ns = now;
    }
    // reserve a real descriptor number
    let fd = unsafe { raw_syscall6(libc::SYS_openat, libc::AT_FDCWD as i64, b"/dev/null\0".as_ptr() as i64, (libc::O_RDONLY | libc::O_CLOEXEC) as i64, 0, 0, 0) };
    if fd < 0 {
        return Some(Err((-fd) as i32));
    }
    s.fds.insert(fd as i32, OpenFd { path: p, pos: 0, append: flags & libc::O_APPEND != 0, limit, broken: false });
    s.ev(me, Pt::Open, oidx, fd as u64 * 0);
    Some(Ok(fd as i32))
}

pub fn is_sim_fd(fd: i32) -> bool {
    if current_tid().is_none() {
        return false;
    }
    if IN_SIM.with(|c| c.get()) {
        return false;
    }
    let p = SIM.load(Ordering::Acquire);
    if p.is_null() {
        return false;
    }
    unsafe { (*p).fds.contains_key(&fd) }
}

pub fn hook_close(fd: i32) -> Option<i32> {
    if !is_sim_fd(fd) {
        return None;
    }
    let _g = enter()?;
    let s = sim();
    s.fds.remove(&fd);
    unsafe { raw_syscall6(libc::SYS_close, fd as i64, 0, 0, 0, 0, 0) };
    Some(0)
}

pub fn hook_read(fd: i32, buf: &mut [u8]) -> Option<Result<usize, i32>> {
    if !is_sim_fd(fd) {
        return None;
    }
    let g = enter()?;
    let s = sim();
    let me = g.tid;
    s.stats.sim_reads += 1;
    let idx = s.io_idx;
    s.io_idx += 1;
    if !s.quiet {
        s.sched_point(me, Pt::Read);
    }
    if s.fds[&fd].broken {
        s.ev(me, Pt::Read, idx, u64::MAX - 1);
        return Some(Err(libc::EIO));
    }
    let (path, pos, limit) = {
        let o = &s.fds[&fd];
        (o.path.clone(), o.pos, o.limit)
    };
    let flen = s.files.get(&path).map(|f| f.data.len()).unwrap_or(0);
    let eff_len = limit.map_or(flen, |l| l.min(flen));
    let avail = eff_len.saturating_sub(pos);
    let mut n = avail.min(buf.len());
    let mut flip: Option<usize> = None;
    if !s.quiet && n > 0 && path_faultable(s, &path) {
        let mask = s.cfg.faults;
        let rate = s.cfg.io_fault_rate;
        let hard_ok = s.hard_faults < s.cfg.max_hard_faults;
        let damage_ok = s.cfg.trunc_paths.is_empty() || s.cfg.trunc_paths.iter().any(|t| path.contains(t.as_str()));
        let no_sticky = s.cfg.no_sticky_faults;
        let nn = n as u64;
        let f = s.dec.fault_at("io", idx, |r| {
            if !r.chance(rate) {
                return None;
            }
            let mut kinds: Vec<&'static str> = vec![];
            if mask & F_SHORT_READ != 0 && nn > 1 {
                kinds.push("short_read");
            }
            if mask & F_EINTR_READ != 0 {
                kinds.push("eintr_read");
            }
            if mask & F_EIO_READ != 0 && hard_ok {
                kinds.push("eio_read");
            }
            if mask & F_BITFLIP_READ != 0 && hard_ok && damage_ok {
                kinds.push("bitflip_read");
            }
            if kinds.is_empty() {
                return None;
            }
            let k = *r.pick(&kinds);
            let arg = if k == "short_read" {
                if r.chance(0.3) { 1 } else { 1 + r.below(nn - 1) }
            } else if k == "eio_read" {
                if no_sticky { 0 } else { r.below(2) } // 1 = sticky: the medium stays unreadable
            } else if k == "bitflip_read" {
                r.below(nn * 8)
            } else {
                0
            };
            Some((k, arg))
        });
        // (a constructed - not recorded - fault list may name a fault that is not applicable here)
        let f = f.filter(|(k, _)| k != "bitflip_read" || damage_ok);
        if let Some((k, arg)) = f {
            s.count_fault(&k);
            match k.as_str() {
                "short_read" => n = (arg as usize).clamp(1, n),
                "eintr_read" => {
                    s.ev(me, Pt::Read, idx, u64::MAX);
                    return Some(Err(libc::EINTR));
                }
                "eio_read" => {
                    s.hard_faults += 1;
                    if arg == 1 {
                        s.fds.get_mut(&fd).unwrap().broken = true;
                    }
                    s.ev(me, Pt::Read, idx, u64::MAX - 1);
                    return Some(Err(libc::EIO));
                }
                "bitflip_read" => {
                    s.hard_faults += 1;
                    flip = Some((arg as usize) % (n * 8));
                }
                _ => {}
            }
        }
    }
    if n > 0 {
        let data = &s.files[&path].data;
        buf[..n].copy_from_slice(&data[pos..pos + n]);
        if let Some(bit) = flip {
            buf[bit / 8] ^= 1 << (bit % 8);
        }
        s.fds.get_mut(&fd).unwrap().pos = pos + n;
    }
    s.ev(me, Pt::Read, idx, n as u64);
    Some(Ok(n))
}

pub fn hook_write(fd: i32, buf: &[u8]) -> Option<Result<usize, i32>> {
    if !is_sim_fd(fd) {
        return None;
    }
    let g = enter()?;
    let s = sim();
    let me = g.tid;
    s.stats.sim_writes += 1;
    let idx = s.io_idx;
    s.io_idx += 1;
    if !s.quiet {
        s.sched_point(me, Pt::Write);
    }
    let (path, pos, append) = {
        let o = &s.fds[&fd];
        (o.path.clone(), o.pos, o.append)
    };
    let mut n = buf.len();
    if let Some(errno) = s.broken_write_paths.get(&path).copied() {
        s.ev(me, Pt::Write, idx, u64::MAX - 3);
        // (every such write is a scheduling point and a step: a loop that retries forever meets the step budget)
        if !s.quiet {
            s.sched_point(me, Pt::Write);
        }
        return Some(if errno == 0 { Ok(0) } else { Err(errno) });
    }
    if !s.quiet && n > 0 && path_faultable(s, &path) {
        let mask = s.cfg.faults;
        let rate = s.cfg.io_fault_rate;
        let hard_ok = s.hard_faults < s.cfg.max_hard_faults;
        let nn = n as u64;
        let f = s.dec.fault_at("io", idx, |r| {
            if !r.chance(rate) {
                return None;
            }
            let mut kinds: Vec<&'static str> = vec![];
            if mask & F_SHORT_WRITE != 0 && nn > 1 {
                kinds.push("short_write");
            }
            if mask & F_EINTR_WRITE != 0 {
                kinds.push("eintr_write");
            }
            if mask & F_EIO_WRITE != 0 && hard_ok {
                kinds.push("eio_write");
            }
            if mask & F_ENOSPC_WRITE != 0 && hard_ok {
                kinds.push("enospc_write");
            }
            if mask & F_ZERO_WRITE != 0 && hard_ok {
                kinds.push("zero_write");
            }
            if kinds.is_empty() {
                return None;
            }
            let k = *r.pick(&kinds);
            // hard write faults: 1 = sticky (the disk stays full / the medium stays broken)
            let arg = if k == "short_write" { if r.chance(0.3) { 1 } else { 1 + r.below(nn - 1) } } else if k == "eio_write" || k == "enospc_write" || k == "zero_write" { r.below(2) } else { 0 };
            Some((k, arg))
        });
        if let Some((k, arg)) = f {
            s.count_fault(&k);
            match k.as_str() {
                "short_write" => n = (arg as usize).clamp(1, n),
                "eintr_write" => {
                    s.ev(me, Pt::Write, idx, u64::MAX);
                    return Some(Err(libc::EINTR));
                }
                "eio_write" => {
                    s.hard_faults += 1;
                    if arg == 1 {
                        s.broken_write_paths.insert(path.clone(), libc::EIO);
                    }
                    s.ev(me, Pt::Write, idx, u64::MAX - 1);
                    return Some(Err(libc::EIO));
                }
                "zero_write" => {
                    s.hard_faults += 1;
                    if arg == 1 {
                        s.broken_write_paths.insert(path.clone(), 0);
                    }
                    s.ev(me, Pt::Write, idx, u64::MAX - 4);
                    return Some(Ok(0));
                }
                "enospc_write" => {
                    s.hard_faults += 1;
                    if arg == 1 {
                        s.broken_write_paths.insert(path.clone(), libc::ENOSPC);
                    }
                    s.ev(me, Pt::Write, idx, u64::MAX - 2);
                    return Some(Err(libc::ENOSPC));
                }
                _ => {}
            }
        }
    }
    let now = REALTIME_EPOCH_NS + s.clock_ns;
    let file = s.files.entry(path).or_insert(VFile { data: vec![], mtime_ns: now });
    file.mtime_ns = now;
    let at = if append { file.data.len() } else { pos };
    if file.data.len() < at + n {
        file.data.resize(at + n, 0);
    }
    file.data[at..at + n].copy_from_slice(&buf[..n]);
    s.fds.get_mut(&fd).unwrap().pos = at + n;
    s.ev(me, Pt::Write, idx, n as u64);
    // a second scheduling point after the bytes landed: the writer can be preempted between
    // two consecutive writes of one logical record
    if !s.quiet {
        s.sched_point(me, Pt::Write);
    }
    Some(Ok(n))
}

pub fn hook_lseek(fd: i32, off: i64, whence: i32) -> Option<Result<i64, i32>> {
    if !is_sim_fd(fd) {
        return None;
    }
    let _g = enter()?;
    let s = sim();
    let path = s.fds[&fd].path.clone();
    if s.cfg.pipe_like_paths.iter().any(|p| path.contains(p.as_str())) {
        return Some(Err(libc::ESPIPE));
    }
    let flen = s.files.get(&path).map(|f| f.data.len()).unwrap_or(0) as i64;
    let o = s.fds.get_mut(&fd).unwrap();
    let np = match whence {
        libc::SEEK_SET => off,
        libc::SEEK_CUR => o.pos as i64 + off,
        libc::SEEK_END => flen + off,
        _ => return Some(Err(libc::EINVAL)),
    };
    if np < 0 {
        return Some(Err(libc::EINVAL));
    }
    o.pos = np as usize;
    Some(Ok(np))
}

/// size and kind for stat-like calls: Some(Ok((is_dir, len)))
pub fn hook_stat_path(path: &[u8]) -> Option<Result<(bool, u64, u64), i32>> {
    if !is_sim_path(path) {
        return None;
    }
    let _g = enter()?;
    let s = sim();
    let p = String::from_utf8_lossy(path).to_string();
    if p == "/sim" || p == "/sim/" {
        return Some(Ok((true, 0, REALTIME_EPOCH_NS)));
    }
    match s.files.get(&p) {
        Some(f) if s.cfg.pipe_like_paths.iter().any(|x| p.contains(x.as_str())) => Some(Ok((false, 0, f.mtime_ns))),
        Some(f) => Some(Ok((false, f.data.len() as u64, f.mtime_ns))),
        None => Some(Err(libc::ENOENT)),
    }
}
pub fn hook_stat_fd(fd: i32) -> Option<Result<(bool, u64, u64), i32>> {
    if !is_sim_fd(fd) {
        return None;
    }
    let _g = enter()?;
    let s = sim();
    let path = s.fds[&fd].path.clone();
    let len = s.files.get(&path).map(|f| f.data.len()).unwrap_or(0) as u64;
    let mtime = s.files.get(&path).map(|f| f.mtime_ns).unwrap_or(REALTIME_EPOCH_NS);
    if s.cfg.pipe_like_paths.iter().any(|p| path.contains(p.as_str())) {
        return Some(Ok((false, 0, mtime)));
    }
    Some(Ok((false, len, mtime)))
}

/// rename / unlink of simulated files by the code under test
pub fn hook_rename(old: &[u8], new: &[u8]) -> Option<Result<(), i32>> {
    if !is_sim_path(old) && !is_sim_path(new) {
        return None;
    }
    let g = enter()?;
    let s = sim();
    if !is_sim_path(old) || !is_sim_path(new) {
        return Some(Err(libc::EXDEV));
    }
    let (o, n) = (String::from_utf8_lossy(old).to_string(), String::from_utf8_lossy(new).to_string());
    s.ev(g.tid, Pt::Open, u64::MAX - 1, 0);
    if !s.quiet {
        s.sched_point(g.tid, Pt::Open);
    }
    Some(if s.rename_file(&o, &n) { Ok(()) } else { Err(libc::ENOENT) })
}
pub fn hook_unlink(path: &[u8]) -> Option<Result<(), i32>> {
    if !is_sim_path(path) {
        return None;
    }
    let g = enter()?;
    let s = sim();
    let p = String::from_utf8_lossy(path).to_string();
    s.ev(g.tid, Pt::Open, u64::MAX - 2, 0);
    if !s.quiet {
        s.sched_point(g.tid, Pt::Open);
    }
    Some(if s.unlink_file(&p).is_some() { Ok(()) } else { Err(libc::ENOENT) })
}

/// ftruncate on a simulated file
pub fn hook_ftruncate(fd: i32, len: i64) -> Option<Result<(), i32>> {
    if !is_sim_fd(fd) {
        return None;
    }
    let g = enter()?;
    let s = sim();
    if len < 0 {
        return Some(Err(libc::EINVAL));
    }
    let path = s.fds[&fd].path.clone();
    if let Some(f) = s.files.get_mut(&path) {
        f.data.resize(len as usize, 0);
    }
    s.ev(g.tid, Pt::Write, u64::MAX, len as u64);
    Some(Ok(()))
}

/// stderr/stdout writes of simulated threads are swallowed (progress bars)
pub fn swallow_fd(fd: i32) -> bool {
    (fd == 1 || fd == 2) && current_tid().is_some()
}

impl Sim {
    pub fn put_file(&mut self, path: &str, data: Vec<u8>) {
        let now = REALTIME_EPOCH_NS + self.clock_ns;
        self.files.insert(path.to_string(), VFile { data, mtime_ns: now });
    }
    /// a file moved into place with its times kept (`mv`, `cp -p`, `rsync -t`): its modification time is older
    /// than the moment it appeared under the name
    pub fn put_file_with_mtime(&mut self, path: &str, data: Vec<u8>, mtime_ns: u64) {
        self.files.insert(path.to_string(), VFile { data, mtime_ns });
    }
    pub fn mtime_of(&self, path: &str) -> Option<u64> {
        self.files.get(path).map(|f| f.mtime_ns)
    }
    pub fn get_file(&self, path: &str) -> Option<&[u8]> {
        self.files.get(path).map(|f| f.data.as_slice())
    }
    /// remove a name. Descriptors that are open on the file keep it: the file lives on without a name (under a
    /// key no generated path uses) until the run ends. Returns that key.
    pub fn unlink_file(&mut self, path: &str) -> Option<String> {
        let f = self.files.remove(path)?;
        self.unlinked += 1;
        let key = format!("/sim/.unlinked/{}", self.unlinked);
        for fd in self.fds.values_mut() {
            if fd.path == path {
                fd.path = key.clone();
            }
        }
        self.files.insert(key.clone(), f);
        Some(key)
    }
    /// give a file another name (an existing file of that name loses it). Open descriptors follow the file.
    pub fn rename_file(&mut self, old: &str, new: &str) -> bool {
        if !self.files.contains_key(old) {
            return false;
        }
        if old == new {
            return true;
        }
        if self.files.contains_key(new) {
            self.unlink_file(new);
        }
        let f = self.files.remove(old).unwrap();
        for fd in self.fds.values_mut() {
            if fd.path == old {
                fd.path = new.to_string();
            }
        }
        self.files.insert(new.to_string(), f);
        true
    }
    pub fn now_ns(&self) -> u64 {
        self.clock_ns
    }
    pub fn recorded(&self) -> Recorded {
        self.dec.rec.clone()
    }
    pub fn set_thread_clock_offset(&mut self, tid: usize, off: u64) {
        self.slots[tid].clock_off = off;
    }
}
