//! One simulated execution: build the application from a generated world on the simulated disk,
//! run reference (isolated, quiet) executions, then the explored execution on a simulated pool.

use crate::harness;
use crate::sim::{self, Decider, Recorded, SimCfg, Stats};
use crate::world::World;
use routee_compass::app::compass::compass_app::CompassApp;
use routee_compass::app::compass::compass_app_ops as ops;
use routee_compass::app::compass::config::compass_app_builder::CompassAppBuilder;
use serde::{Deserialize, Serialize};
use serde_json::Value;
use std::panic::{catch_unwind, AssertUnwindSafe};
use std::sync::Mutex;

#[derive(Clone, Debug, Serialize, Deserialize)]
pub struct Case {
    pub check: String,
    pub seed: u64,
    pub family: String,
    pub world: World,
    /// the batch is split over `runs` consecutive `run` calls (appending to the same output file)
    pub batches: Vec<Vec<Value>>,
    pub workers: usize,
    pub run_parallelism: Option<usize>,
    pub simcfg: SimCfg,
    /// None: decisions come from the PRNG of `seed`; Some: explicit replay
    pub recorded: Option<Recorded>,
    /// check-specific parameters
    pub params: Value,
}

#[derive(Clone, Debug, Serialize, Deserialize, Default)]
pub struct PanicInfo {
    pub message: String,
    pub location: String,
    pub thread: String,
}

static PANICS: Mutex<Vec<PanicInfo>> = Mutex::new(Vec::new());

pub fn install_panic_hook() {
    std::panic::set_hook(Box::new(|info| {
        let message = if let Some(s) = info.payload().downcast_ref::<&str>() {
            s.to_string()
        } else if let Some(s) = info.payload().downcast_ref::<String>() {
            s.clone()
        } else {
            "non-string panic".to_string()
        };
        let location = info.location().map(|l| format!("{}:{}", l.file(), l.line())).unwrap_or_default();
        let thread = std::thread::current().name().unwrap_or("").to_string();
        if let Ok(mut p) = PANICS.lock() {
            p.push(PanicInfo { message, location, thread });
        }
    }));
}
pub fn take_panics() -> Vec<PanicInfo> {
    PANICS.lock().map(|mut p| std::mem::take(&mut *p)).unwrap_or_default()
}

#[derive(Clone, Debug, Serialize, Deserialize, Default)]
pub struct Obs {
    pub build_error: Option<String>,
    pub ref_build_error: Option<String>,
    /// per batch, per original query: the isolated responses (None = the isolated run itself panicked or failed as a whole)
    pub reference: Vec<Vec<Option<Vec<Value>>>>,
    /// per `run` call: Ok(responses) or Err(app error); None = panicked
    pub runs: Vec<Option<Result<Vec<Value>, String>>>,
    pub panics: Vec<PanicInfo>,
    pub out_file: Option<Vec<u8>>,
    #[serde(default)]
    pub out_file2: Option<Vec<u8>>,
    pub stats: Stats,
    pub recorded: Recorded,
    pub probes: Vec<sim::ProbeEv>,
    pub clock_log: Vec<(usize, i32, u64)>,
    pub trace: Option<Vec<String>>,
    pub extra: Value,
    /// response files that lost their name between two run() calls (rotated away, deleted): what each held at
    /// that moment and what it holds when the case ends
    #[serde(default)]
    pub rotated: Vec<(Vec<u8>, Vec<u8>)>,
    #[serde(default)]
    pub extra_rotation_damage: Option<String>,
    /// `reload_rounds`: what the application answered to the first batch each time it was built again in this
    /// process (after an application with other limits had been built, used and dropped)
    #[serde(default)]
    pub reloads: Vec<Value>,
}

/// the application behind the language-binding interface (`CompassAppBindings`: what the Python package calls):
/// built from a TOML string, batches handed over and returned as JSON strings, graph accessors by plain index
pub struct Bind {
    pub app: CompassApp,
}
impl routee_compass::app::bindings::CompassAppBindings for Bind {
    fn from_config_toml_string(config_string: String, original_file_path: String) -> Result<Self, routee_compass::app::compass::compass_app_error::CompassAppError> {
        let builder = CompassAppBuilder::default();
        let app = CompassApp::try_from_config_toml_string(config_string, original_file_path, &builder)?;
        Ok(Bind { app })
    }
    fn app(&self) -> &CompassApp {
        &self.app
    }
}

fn strip_nulls(v: &Value) -> Value {
    match v {
        Value::Object(m) => Value::Object(m.iter().filter(|(_, x)| !x.is_null()).map(|(k, x)| (k.clone(), strip_nulls(x))).collect()),
        Value::Array(a) => Value::Array(a.iter().filter(|x| !x.is_null()).map(strip_nulls).collect()),
        x => x.clone(),
    }
}

/// the same configuration as a TOML text, through the binding constructor
pub fn build_app_via_bindings(cfg_json: &Value) -> Result<CompassApp, String> {
    use routee_compass::app::bindings::CompassAppBindings;
    let text = match toml::to_string(&strip_nulls(cfg_json)) {
        Ok(t) => t,
        // (a value TOML cannot hold, e.g. an integer beyond i64: this world keeps its JSON configuration)
        Err(_) => return build_app(cfg_json),
    };
    // (the loader resolves relative paths against the configuration file and wants to find it)
    sim::with(|s| s.put_file("/sim/config.toml", text.as_bytes().to_vec()));
    Bind::from_config_toml_string(text, "/sim/config.toml".to_string()).map(|b| b.app).map_err(|e| e.to_string())
}

/// one batch through `CompassApp::run`, or - `via_bindings` - through `CompassAppBindings::run_queries` (strings in,
/// strings out)
pub fn run_batch(bind: &Bind, via_bindings: bool, batch: Vec<Value>, cfg: Option<&Value>) -> Result<Vec<Value>, String> {
    if !via_bindings {
        return bind.app.run(batch, cfg).map_err(|e| e.to_string());
    }
    use routee_compass::app::bindings::CompassAppBindings;
    let queries: Vec<String> = batch.iter().map(|q| q.to_string()).collect();
    let out = bind.run_queries(queries, cfg.map(|c| c.to_string())).map_err(|e| e.to_string())?;
    out.iter().map(|s| serde_json::from_str::<Value>(s).map_err(|e| format!("binding returned a string that is not JSON: {} ({})", e, s.chars().take(200).collect::<String>()))).collect()
}

pub fn build_app(cfg_json: &Value) -> Result<CompassApp, String> {
    let builder = CompassAppBuilder::default();
    let s = serde_json::to_string(cfg_json).unwrap();
    let config = ops::read_config_from_string(s, config::FileFormat::Json, "/sim/config.json".to_string()).map_err(|e| e.to_string())?;
    CompassApp::try_from((&config, &builder)).map_err(|e| e.to_string())
}

/// a run's configuration with the case's extra per-run keys merged in (`params.run_overrides[i]`: sections of the
/// application configuration offered as per-run overrides; the unchanged tree reads three keys and ignores the rest)
/// the parallelism a run() call asks for in its own configuration: `params.run_parallelism_per_run[i]` (a number, or
/// null for "not given") where the case has one, else the case-wide `run_parallelism`
fn run_par(case: &Case, run_index: usize) -> Option<usize> {
    match case.params.get("run_parallelism_per_run").and_then(|a| a.get(run_index)) {
        Some(v) => v.as_u64().map(|x| x as usize),
        None => case.run_parallelism,
    }
}

fn with_run_overrides(case: &Case, run_index: usize, cfg: Option<Value>) -> Option<Value> {
    match case.params.get("run_overrides").and_then(|o| o.get(run_index)).and_then(|o| o.as_object()) {
        Some(extra) if !extra.is_empty() => {
            let mut m = cfg.and_then(|c| c.as_object().cloned()).unwrap_or_default();
            for (k, v) in extra {
                m.insert(k.clone(), v.clone());
            }
            Some(Value::Object(m))
        }
        _ => cfg,
    }
}

pub struct ExecOpts {
    pub reference: bool,
    pub trace: bool,
    pub log_clock: bool,
    /// explore (faults + schedule) also while the application is being built
    pub explore_build: bool,
}

/// customisation points a check can use without touching the system: runs on the root thread.
pub trait Instrument: Send {
    fn after_build(&mut self, _app: &mut CompassApp, _reference: bool) {}
    fn before_run(&mut self, _batch_idx: usize) {}
    fn extra(&mut self) -> Value {
        Value::Null
    }
}
pub struct NoInstr;
impl Instrument for NoInstr {}

pub fn execute(case: &Case, opts: ExecOpts, mut instr: Box<dyn Instrument>, fatal_fd: i32) -> Obs {
    let case = case.clone();
    let dec = match &case.recorded {
        Some(r) => Decider::from_recorded(case.seed, r),
        None => Decider::from_seed(case.seed),
    };
    let simcfg = case.simcfg.clone();
    let out = harness::run_in_sim(simcfg, dec, fatal_fd, move || {
        let mut obs = Obs::default();
        sim::with(|s| {
            for (p, d) in case.world.files() {
                s.put_file(&p, d);
            }
            if let Some(o) = &case.world.out {
                if o.preexisting {
                    // a file left by an earlier session (newline-delimited JSON only: it has no header)
                    s.put_file(&case.world.out_path(), crate::world::PREEXISTING_JSON.as_bytes().to_vec());
                }
            }
            if opts.trace {
                s.trace = Some(vec![]);
            }
            s.log_clock = opts.log_clock;
        });
        // ---- reference: every query alone, quiet, on a one-worker pool ----
        if opts.reference {
            // (`build_in_pool`: the reference application is built by the one worker of its own pool, so that a build
            // which hands work to rayon finds a pool of one - in order, alone - and not the process-wide default pool)
            let ref_in_pool = case.params.get("build_in_pool").and_then(|x| x.as_bool()).unwrap_or(false);
            let ref_pool = harness::make_pool(1);
            match catch_unwind(AssertUnwindSafe(|| if ref_in_pool { ref_pool.install(|| build_app(&case.world.config(true))) } else { build_app(&case.world.config(true)) })) {
                Ok(Ok(mut app)) => {
                    instr.after_build(&mut app, true);
                    let pool = ref_pool;
                    for b in &case.batches {
                        let mut per = vec![];
                        for q in b {
                            let r = catch_unwind(AssertUnwindSafe(|| pool.install(|| app.run(vec![q.clone()], None))));
                            per.push(match r {
                                Ok(Ok(v)) => Some(v),
                                _ => None,
                            });
                        }
                        obs.reference.push(per);
                    }
                    drop(pool);
                    drop(app);
                }
                Ok(Err(e)) => obs.ref_build_error = Some(e),
                Err(_) => obs.ref_build_error = Some("panic while building reference app".into()),
            }
            let _ = take_panics(); // reference panics are not the explored execution's
        }
        // ---- explored execution through the command-line runner: configuration file, query file read
        // in chunks, one run() per chunk appending to the same output file ----
        if let Some(cli) = case.params.get("cli").filter(|c| c.is_object()) {
            use routee_compass::app::cli::{cli_args::CliArgs, run::command_line_runner};
            let crlf = cli["crlf"].as_bool().unwrap_or(false);
            let eol: &[u8] = if crlf { b"\r\n" } else { b"\n" };
            // rows that are no query at all (no response is owed for them; every real query still is)
            let garbage: Vec<(u64, u64)> = cli["garbage"].as_array().map(|a| a.iter().filter_map(|g| Some((g[0].as_u64()?, g[1].as_u64()?))).collect()).unwrap_or_default();
            let mut text: Vec<u8> = vec![];
            let mut row = 0u64;
            for b in &case.batches {
                for q in b {
                    for (_, kind) in garbage.iter().filter(|(at, _)| *at == row) {
                        match kind {
                            0 => text.extend_from_slice(b"this row is not JSON"),
                            1 => text.extend_from_slice(&[b'{', b'"', b'n', b'"', b':', b'"', 0xE9, 0xFF, b'"', b'}']), // not UTF-8
                            2 => {}                                                                       // an empty line
                            _ => text.extend_from_slice(b"{\"_qid\": 1, \"origin_vertex\": "),                  // a truncated object
                        }
                        text.extend_from_slice(eol);
                    }
                    text.extend_from_slice(serde_json::to_string(q).unwrap().as_bytes());
                    text.extend_from_slice(eol);
                    row += 1;
                }
            }
            if cli["no_final_newline"].as_bool().unwrap_or(false) {
                while text.last() == Some(&b'\n') || text.last() == Some(&b'\r') {
                    text.pop();
                }
            }
            sim::with(|s| {
                s.put_file("/sim/config.json", serde_json::to_vec(&case.world.config(false)).unwrap());
                s.put_file("/sim/queries.json", text);
            });
            let args = CliArgs { config_file: "/sim/config.json".into(), query_file: "/sim/queries.json".into(), chunksize: cli["chunksize"].as_i64(), newline_delimited: true };
            let pool = harness::make_pool(case.workers);
            let run_cfg = case.world.run_config(case.run_parallelism, usize::MAX);
            instr.before_run(0);
            sim::set_quiet(false);
            let r = catch_unwind(AssertUnwindSafe(|| pool.install(|| command_line_runner(&args, None, run_cfg.as_ref()))));
            sim::set_quiet(true);
            obs.runs.push(match r {
                Ok(Ok(())) => Some(Ok(vec![])),
                Ok(Err(e)) => Some(Err(e.to_string())),
                Err(_) => None,
            });
            drop(pool);
            obs.panics = take_panics();
            obs.extra = instr.extra();
            obs.out_file = sim::with(|s| s.get_file(&case.world.out_path()).map(|d| d.to_vec()));
            if case.world.out2.is_some() {
                obs.out_file2 = sim::with(|s| s.get_file(&case.world.out2_path()).map(|d| d.to_vec()));
            }
            return obs;
        }
        // ---- explored execution ----
        if opts.explore_build {
            sim::set_quiet(false);
        }
        let via_bindings = case.params.get("via_bindings").and_then(|x| x.as_bool()).unwrap_or(false);
        // (`build_in_pool`: the application is built by a thread of the worker pool - whatever the build hands to
        // rayon then runs on the simulated workers)
        let build_in_pool = case.params.get("build_in_pool").and_then(|x| x.as_bool()).unwrap_or(false);
        let early_pool = if build_in_pool { Some(harness::make_pool(case.workers)) } else { None };
        let build = || if via_bindings { build_app_via_bindings(&case.world.config(false)) } else { build_app(&case.world.config(false)) };
        let built = catch_unwind(AssertUnwindSafe(|| match &early_pool {
            Some(p) => p.install(build),
            None => build(),
        }));
        sim::set_quiet(true);
        match built {
            Ok(Ok(mut app)) => {
                instr.after_build(&mut app, false);
                let app = Bind { app };
                let pool = match early_pool {
                    Some(p) => p,
                    None => harness::make_pool(case.workers),
                };
                let two_callers = case.params.get("two_callers").and_then(|x| x.as_bool()).unwrap_or(false) && case.batches.len() == 2;
                if two_callers {
                    // two caller threads share the application (its services, caches, plugins): each hands one
                    // batch to run() at the same time
                    instr.before_run(0);
                    let cfg0 = with_run_overrides(&case, 0, case.world.run_config(run_par(&case, 0), 0));
                    let cfg1 = with_run_overrides(&case, 1, case.world.run_config(run_par(&case, 1), 1));
                    let (b0, b1) = (case.batches[0].clone(), case.batches[1].clone());
                    let app_ref = &app;
                    let pool_ref = &pool;
                    sim::set_quiet(false);
                    let (r0, r1) = std::thread::scope(|sc| {
                        let h0 = sc.spawn(move || catch_unwind(AssertUnwindSafe(|| pool_ref.install(|| run_batch(app_ref, via_bindings, b0, cfg0.as_ref())))));
                        let h1 = sc.spawn(move || catch_unwind(AssertUnwindSafe(|| pool_ref.install(|| run_batch(app_ref, via_bindings, b1, cfg1.as_ref())))));
                        (h0.join(), h1.join())
                    });
                    sim::set_quiet(true);
                    for r in [r0, r1] {
                        obs.runs.push(match r {
                            Ok(Ok(Ok(v))) => Some(Ok(v)),
                            Ok(Ok(Err(e))) => Some(Err(e)),
                            _ => None,
                        });
                    }
                }
                let mut rotated_keys: Vec<(String, Vec<u8>)> = vec![];
                let mut rewritten_keys: Vec<(String, Vec<u8>)> = vec![];
                for (bi, b) in case.batches.iter().enumerate() {
                    if two_callers {
                        break;
                    }
                    let run_cfg = with_run_overrides(&case, bi, case.world.run_config(run_par(&case, bi), bi));
                    // the response file is rotated away, rewritten in place (same content, another file) or deleted
                    // between two run() calls: the next call names it again and must end up in the file of that name
                    if let (true, Some(op)) = (bi > 0, case.params.get("rotate").and_then(|r| r.get(bi.saturating_sub(1))).and_then(|x| x.as_u64())) {
                        let path = case.world.out_path();
                        sim::with(|s| match op {
                            1 => {
                                let to = format!("{}.{}", path, bi);
                                if let Some(d) = s.get_file(&path).map(|d| d.to_vec()) {
                                    s.rename_file(&path, &to);
                                    rotated_keys.push((to, d));
                                }
                            }
                            2 => {
                                if let Some(d) = s.get_file(&path).map(|d| d.to_vec()) {
                                    if let Some(k) = s.unlink_file(&path) {
                                        s.put_file(&path, d.clone());
                                        // (the old file must not grow any more; the new one carries its content on)
                                        rewritten_keys.push((k, d));
                                    }
                                }
                            }
                            3 => {
                                if let Some(d) = s.get_file(&path).map(|d| d.to_vec()) {
                                    if let Some(k) = s.unlink_file(&path) {
                                        rotated_keys.push((k, d));
                                    }
                                }
                            }
                            _ => {}
                        });
                    }
                    if bi > 0 && case.simcfg.idle_between_runs_ns > 0 {
                        // the application sits idle between two batches (an hour, a day)
                        sim::advance_clock(case.simcfg.idle_between_runs_ns);
                    }
                    instr.before_run(bi);
                    sim::set_quiet(false);
                    let r = catch_unwind(AssertUnwindSafe(|| pool.install(|| run_batch(&app, via_bindings, b.clone(), run_cfg.as_ref()))));
                    sim::set_quiet(true);
                    obs.runs.push(match r {
                        Ok(Ok(v)) => Some(Ok(v)),
                        Ok(Err(e)) => Some(Err(e)),
                        Err(_) => None,
                    });
                }
                drop(pool);
                drop(app);
                sim::with(|s| {
                    for (k, d) in rotated_keys.iter() {
                        obs.rotated.push((d.clone(), s.get_file(k).map(|x| x.to_vec()).unwrap_or_default()));
                    }
                    for (k, d) in rewritten_keys.iter() {
                        // (kept apart: a rewritten file's content lives on under the name, so it is not a part of
                        // the whole; only "nothing was written to the old file" is checked - marked by an empty
                        // snapshot pair convention: (content then, content now) with a leading marker byte)
                        let now = s.get_file(k).map(|x| x.to_vec()).unwrap_or_default();
                        if now != *d {
                            obs.extra_rotation_damage = Some(format!("{} bytes were written to the file that used to carry the name before it was rewritten in place", now.len().saturating_sub(d.len())));
                        }
                    }
                });
            }
            Ok(Err(e)) => obs.build_error = Some(e),
            Err(_) => obs.build_error = Some("PANIC".into()),
        }
        // a history: the application is built again and again in this process - a notebook that changes its
        // configuration, a service that reloads -, alternately with generous limits and with its own (quiet phase)
        if let Some(k) = case.params.get("reload_rounds").and_then(|x| x.as_u64()) {
            let mut loose = case.world.clone();
            loose.termination = serde_json::json!({"type": "combined", "models": [{"type": "iterations", "limit": 1u64 << 40}, {"type": "solution_size", "limit": 1u64 << 40}]});
            let batch = case.batches.get(0).cloned().unwrap_or_default();
            let pool = harness::make_pool(1);
            for _ in 0..k {
                for (wi, wd) in [&loose, &case.world].into_iter().enumerate() {
                    let r = catch_unwind(AssertUnwindSafe(|| build_app(&wd.config(false)).and_then(|app| pool.install(|| app.run(batch.clone(), None)).map_err(|e| e.to_string()))));
                    if wi == 1 {
                        obs.reloads.push(match r {
                            Ok(Ok(v)) => Value::Array(v),
                            Ok(Err(e)) => serde_json::json!({"error": e}),
                            Err(_) => serde_json::json!({"panic": true}),
                        });
                    }
                }
            }
        }
        obs.panics = take_panics();
        obs.extra = instr.extra();
        obs.out_file = sim::with(|s| s.get_file(&case.world.out_path()).map(|d| d.to_vec()));
        if case.world.out2.is_some() {
            obs.out_file2 = sim::with(|s| s.get_file(&case.world.out2_path()).map(|d| d.to_vec()));
        }
        obs
    });
    let mut obs = match out.result {
        Ok(o) => o,
        Err(msg) => {
            let mut o = Obs::default();
            o.build_error = Some(format!("HARNESS-PANIC {}", msg));
            o
        }
    };
    let mut s = out.sim;
    obs.stats = s.stats.clone();
    obs.recorded = s.recorded();
    obs.probes = std::mem::take(&mut s.probes);
    obs.clock_log = std::mem::take(&mut s.clock_log);
    obs.trace = s.trace.take();
    obs
}

/// a custom single-threaded (root only, unless `f` builds a pool) scenario on the simulated disk
pub struct CustomOut {
    pub value: Option<Value>,
    pub panics: Vec<PanicInfo>,
    pub stats: Stats,
    pub recorded: Recorded,
}

pub fn execute_custom(case: &Case, fatal_fd: i32, f: impl FnOnce(&Case) -> Value + Send + 'static) -> CustomOut {
    let case = case.clone();
    let dec = match &case.recorded {
        Some(r) => Decider::from_recorded(case.seed, r),
        None => Decider::from_seed(case.seed),
    };
    let out = harness::run_in_sim(case.simcfg.clone(), dec, fatal_fd, move || {
        sim::with(|s| {
            for (p, d) in case.world.files() {
                s.put_file(&p, d);
            }
        });
        let r = catch_unwind(AssertUnwindSafe(|| f(&case)));
        sim::set_quiet(true);
        (r.ok(), take_panics())
    });
    let s = out.sim;
    let (value, panics) = match out.result {
        Ok(x) => x,
        Err(m) => (None, vec![PanicInfo { message: m, location: "harness".into(), thread: String::new() }]),
    };
    CustomOut { value, panics, stats: s.stats.clone(), recorded: s.recorded() }
}
