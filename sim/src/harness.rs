//! glue between the simulator core and the system under test
use crate::sim::{self, Decider, Sim, SimCfg};
use std::panic::{catch_unwind, AssertUnwindSafe};

pub struct RunOut<R> {
    /// Err(message) when the closure panicked
    pub result: Result<R, String>,
    pub sim: Box<Sim>,
}

fn panic_msg(e: Box<dyn std::any::Any + Send>) -> String {
    if let Some(s) = e.downcast_ref::<&str>() {
        s.to_string()
    } else if let Some(s) = e.downcast_ref::<String>() {
        s.clone()
    } else {
        "non-string panic payload".to_string()
    }
}

/// Run `f` as thread 0 of a fresh simulation on a fresh OS thread (fresh thread-locals, so the
/// per-thread hash seeds come from the simulator's entropy).
/// a logger that accepts every record and formats it (the Display code of the arguments runs) into nothing
struct SinkLogger;
impl log::Log for SinkLogger {
    fn enabled(&self, _m: &log::Metadata) -> bool {
        true
    }
    fn log(&self, record: &log::Record) {
        use std::fmt::Write;
        struct Null;
        impl std::fmt::Write for Null {
            fn write_str(&mut self, _s: &str) -> std::fmt::Result {
                Ok(())
            }
        }
        let _ = write!(Null, "{}", record.args());
    }
    fn flush(&self) {}
}
static SINK_LOGGER: SinkLogger = SinkLogger;

pub fn run_in_sim<R: Send + 'static>(cfg: SimCfg, dec: Decider, fatal_fd: i32, f: impl FnOnce() -> R + Send + 'static) -> RunOut<R> {
    if cfg.log_level > 0 {
        // (one run per process: the global logger can be installed once)
        let _ = log::set_logger(&SINK_LOGGER);
        log::set_max_level(match cfg.log_level {
            1 => log::LevelFilter::Error,
            2 => log::LevelFilter::Warn,
            3 => log::LevelFilter::Info,
            4 => log::LevelFilter::Debug,
            _ => log::LevelFilter::Trace,
        });
    }
    let h = std::thread::Builder::new()
        .name("sim-root".into())
        .stack_size(64 << 20)
        .spawn(move || {
            sim::start(cfg, dec, fatal_fd);
            let r = catch_unwind(AssertUnwindSafe(f)).map_err(panic_msg);
            sim::join_all();
            let s = sim::finish();
            RunOut { result: r, sim: s }
        })
        .expect("spawn sim root");
    h.join().expect("sim root thread itself panicked")
}

/// a rayon pool whose workers are simulated threads
pub fn make_pool(workers: usize) -> rayon::ThreadPool {
    rayon::ThreadPoolBuilder::new()
        .num_threads(workers)
        .spawn_handler(|thread| {
            // An ordinary spawn: the interposed pthread_create registers the new thread with the simulator and
            // wraps its start routine, so that everything the standard library does around the closure - at the
            // start and, more importantly, at the end of the thread (its stack-overflow bookkeeping takes a
            // process-wide lock) - happens while the thread is a simulated one. (Until round 6 the worker was
            // registered here and left the simulation at the end of the closure: the rest of its exit then ran
            // beside the simulated threads, and a thread that started at that very moment could find the lock
            // taken, block in the simulator, and never be woken - by a wake the simulator did not see.)
            let mut b = std::thread::Builder::new();
            if let Some(n) = thread.name() {
                b = b.name(n.to_string());
            }
            b = b.stack_size(thread.stack_size().unwrap_or(16 << 20));
            b.spawn(move || thread.run())?;
            Ok(())
        })
        .build()
        .expect("build pool")
}
