#!/bin/sh
# RUSTC_WRAPPER for the simulator build: instrument only the code under test (and the std code
# inlined into it) with ThreadSanitizer's compile-time pass; the runtime is sim/src/tsan_rt.rs.
rustc="$1"; shift
case " $* " in
  *" --crate-name routee_compass "*|*" --crate-name routee_compass_core "*|*" --crate-name routee_compass_powertrain "*)
    exec "$rustc" "$@" -Zsanitizer=thread -Zexternal-clangrt -Cunsafe-allow-abi-mismatch=sanitizer ;;
  *) exec "$rustc" "$@" -Cunsafe-allow-abi-mismatch=sanitizer ;;
esac
